#!/bin/sh
# usage: tools/thorough_all.sh [ids...]  — builds once, then runs the thorough tier of each id in turn
# (the C09 Miri replay is part of `./check C09 thorough` only). Prints one summary line per id.
ROOT=$(cd "$(dirname "$0")/.." && pwd)
cd "$ROOT" || exit 2
./check build || exit 2
export VERIF_ROOT="$ROOT"
IDS="$*"; [ -z "$IDS" ] && IDS="C07 C17 C08 C06 C02 C10 C09 C16 C20"
rc=0
for id in $IDS; do
    "$ROOT/sim/target/release/boa_sim" check "$id" thorough > "$ROOT/sim/target/thorough-$id.log" 2>&1; r=$?
    echo "== $id exit=$r $(grep '^done' "$ROOT/sim/target/thorough-$id.log")"
    grep -E "VIOLATION|HARNESS-ERROR|violation class" "$ROOT/sim/target/thorough-$id.log" | head -5
    [ $r -ne 0 ] && rc=$r
done
exit $rc
