#!/usr/bin/env python3
"""Authoring-time only: extracts the JavaScript snippets embedded in boa's own Rust tests
(TestAction::run / assert* string literals), grouped per test function (they share a context),
into /verif/corpus/harvest.json. The output is a committed snapshot; checks never run this."""
import re, json, os, sys

ROOT = "/repo/core/engine/src"
ACTION = re.compile(r'TestAction::(run|assert|assert_eq|assert_native_error|assert_opaque_error|assert_with_op)\s*\(\s*(?:indoc!\s*[\{\(]\s*)?')
FN = re.compile(r'^\s*fn\s+([a-z0-9_]+)\s*\(', re.M)

def read_string(text, i):
    """Parses a Rust string literal starting at text[i]; returns (value, end) or None."""
    m = re.match(r'r(#*)"', text[i:])
    if m:
        hashes = m.group(1)
        start = i + m.end()
        end = text.find('"' + hashes, start)
        if end < 0: return None
        return text[start:end], end
    if text[i] == '"':
        j = i + 1; out = []
        while j < len(text):
            c = text[j]
            if c == '\\':
                n = text[j+1]
                if n == 'n': out.append('\n')
                elif n == 't': out.append('\t')
                elif n == '\\': out.append('\\')
                elif n == '"': out.append('"')
                elif n == "'": out.append("'")
                elif n == '0': out.append('\0')
                elif n == 'r': out.append('\r')
                elif n == '\n':
                    j += 2
                    while j < len(text) and text[j] in ' \t\n': j += 1
                    continue
                elif n == 'u' or n == 'x':
                    return None
                else: return None
                j += 2; continue
            if c == '"': return ''.join(out), j
            out.append(c); j += 1
    return None

def dedent(s):
    lines = s.split('\n')
    ind = [len(l) - len(l.lstrip()) for l in lines if l.strip()]
    k = min(ind) if ind else 0
    return '\n'.join(l[k:] for l in lines).strip('\n')

groups = []
for dp, _, fs in os.walk(ROOT):
    for f in sorted(fs):
        if not f.endswith('.rs'): continue
        p = os.path.join(dp, f)
        text = open(p, encoding='utf-8').read()
        if 'TestAction::' not in text: continue
        fns = [(m.start(), m.group(1)) for m in FN.finditer(text)]
        cur = {}
        for m in ACTION.finditer(text):
            r = read_string(text, m.end())
            if not r: continue
            src = dedent(r[0])
            if not src.strip() or len(src) > 4000: continue
            name = 'top'
            for pos, n in fns:
                if pos < m.start(): name = n
                else: break
            key = os.path.relpath(p, ROOT) + '::' + name
            cur.setdefault(key, []).append(src)
        for k, v in cur.items():
            groups.append({"name": k, "snippets": v})
BAN = re.compile(r'Math\.random|Temporal\.Now|new Date\(\)|Date\.now|performance|toLocale|Intl\.|WeakRef|FinalizationRegistry|\$boa|getTimezoneOffset|while\s*\(\s*true\s*\)|for\s*\(\s*;\s*;\s*\)')
# groups measured (boa_sim harvest-measure) to allocate > 20000 boxes are too heavy for collect-at-every-allocation schedules
HEAVY = {'vm/tests.rs::long_object_chain_gc_trace_stack_overflow'}
kept = [g for g in groups if g['name'] not in HEAVY and not any(BAN.search(s) for s in g["snippets"])]
kept.sort(key=lambda g: g["name"])
json.dump({"source": "boa-dev/boa core/engine/src tests (pinned tree)", "groups": kept}, open('/verif/corpus/harvest.json', 'w'), indent=0)
print(len(groups), "groups found,", len(kept), "kept,", sum(len(g["snippets"]) for g in kept), "snippets,", os.path.getsize('/verif/corpus/harvest.json'), "bytes")
