#!/bin/sh
# usage: tools/run_all_seeded.sh [names...]   (default: every directory under seeded/)
# Applies each seeded change to /repo in turn, runs the quick tier of its property, restores
# /repo, and writes seeded/matrix.json: {name: {property, exit, classes}}. Expect exit=1 everywhere.
ROOT=$(cd "$(dirname "$0")/.." && pwd)
cd "$ROOT" || exit 2
NAMES="$*"
[ -z "$NAMES" ] && NAMES=$(ls seeded | grep -v matrix.json)
OUT=$ROOT/seeded/matrix.json
TMP=$(mktemp)
echo "{" > "$TMP"
first=1
for n in $NAMES; do
    [ -f "seeded/$n/patch.diff" ] || continue
    res=$(tools/run_seeded.sh "seeded/$n" 2>&1)
    prop=$(python3 -c "import json; print(json.load(open('seeded/$n/meta.json'))['property'])")
    rc=$(echo "$res" | sed -n 's/^== .* exit=\([0-9]*\)$/\1/p' | head -1)
    classes=$(echo "$res" | sed -n 's/^  violation class \(.*\): [0-9]*$/\1/p' | head -6 | python3 -c "import sys,json; print(json.dumps([l.strip() for l in sys.stdin]))")
    [ $first = 1 ] || echo "," >> "$TMP"
    first=0
    printf ' "%s": {"property": "%s", "quick_exit": %s, "violation_classes": %s}' "$n" "$prop" "${rc:-null}" "$classes" >> "$TMP"
    echo "$n $prop exit=${rc:-?} $classes"
done
echo "" >> "$TMP"; echo "}" >> "$TMP"
mv "$TMP" "$OUT"
git -C /repo status --short
