#!/usr/bin/env python3
"""Authoring-time only: builds /verif/corpus/c16/litmus.json from litmus_src.js and from the promise
kernels of the simulator (instantiated by `boa_sim c16-kernels`), with expected traces. Expectations
follow the specification's job-enqueue rules; they were cross-checked with the node binary that happens
to be on this image (not part of the listed tooling, never used by a check). Usage:
  tools/make_c16_expected.py /path/to/node"""
import json, subprocess, sys, re, os
node = sys.argv[1]
PRELUDE = "var __out=[]; function print(){ __out.push(Array.prototype.map.call(arguments, String).join(' ')); }\n"
POST = "\nsetTimeout(function(){ console.log(JSON.stringify(__out)); }, 50);\n"
def run(src):
    r = subprocess.run([node, '-e', PRELUDE + src + POST], capture_output=True, text=True, timeout=20)
    if r.returncode != 0: raise SystemExit("node failed: " + r.stderr[:500] + "\n" + src[:300])
    return json.loads(r.stdout.strip().splitlines()[-1])
progs = []
text = open('/verif/corpus/c16/litmus_src.js').read()
for m in re.finditer(r'^//# (\S+)\n(.*?)(?=^//# |\Z)', text, re.S | re.M):
    progs.append({"name": "litmus:" + m.group(1), "src": m.group(2).strip() + "\n"})
k = subprocess.run(['/verif/sim/target/release/boa_sim', 'c16-kernels'], capture_output=True, text=True)
for line in k.stdout.splitlines():
    d = json.loads(line)
    progs.append({"name": "kernel:" + d["name"], "src": d["src"]})
for p in progs:
    p["expected"] = run(p["src"])
    if not p["expected"]: raise SystemExit("empty trace for " + p["name"])
json.dump({"note": "expected traces per ECMAScript job ordering; authoring-time cross-check with V8 (node v20)", "programs": progs}, open('/verif/corpus/c16/litmus.json', 'w'), indent=0)
print(len(progs), "litmus programs written")
