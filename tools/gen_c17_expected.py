#!/usr/bin/env python3
"""Authoring-time only: expected traces for module graphs with top-level await and cycles, where
the simulator's own reference model (synchronous graphs only) does not reach. The graphs come
from the C17 generator (`boa_sim c17-corpus`), the expectation is the specification's
InnerModuleEvaluation / AsyncModuleExecutionFulfilled order as implemented by the node binary
that happens to be on this image (never invoked by a check).
Usage: tools/gen_c17_expected.py <node> <count> [seed] -> /verif/corpus/c17/expected.json"""
import json, os, re, shutil, subprocess, sys, tempfile

HARNESS = """
const out = []; let cur = [];
globalThis.print = (...a) => cur.push(a.map(String).join(' '));
async function phase(spec) {
  let outcome;
  try { await import(spec); outcome = 'fulfilled'; } catch (e) { outcome = 'rejected:' + (e && e.message !== undefined ? e.message : String(e)); }
  // let every job a finished evaluation left behind run before the next phase starts
  await new Promise(r => setTimeout(r, 5));
  out.push([cur, outcome]); cur = [];
}
await phase('./m%d.mjs'); await phase('./m%d.mjs'); await phase('./m%d.mjs');
console.log(JSON.stringify(out));
"""

def main():
    node, count = sys.argv[1], int(sys.argv[2])
    seed = sys.argv[3] if len(sys.argv) > 3 else "20260922"
    lines = subprocess.run(['/verif/sim/target/release/boa_sim', 'c17-corpus', seed, str(count)], capture_output=True, text=True, check=True).stdout.splitlines()
    progs, failed = [], 0
    for n, line in enumerate(lines):
        g = json.loads(line)
        d = tempfile.mkdtemp(prefix='c17x')
        try:
            for i, src in enumerate(g['sources']):
                src = re.sub(r"from 'm(\d+)'", r"from './m\1.mjs'", src)
                src = re.sub(r"^import 'm(\d+)';", r"import './m\1.mjs';", src, flags=re.M)
                open(f'{d}/m{i}.mjs', 'w').write(src)
            open(f'{d}/harness.mjs', 'w').write(HARNESS % (g['entry'], g['entry'], g['second_entry']))
            r = subprocess.run([node, f'{d}/harness.mjs'], capture_output=True, text=True, timeout=30)
            if r.returncode != 0:
                failed += 1
                continue
            phases = json.loads(r.stdout.strip().splitlines()[-1])
        finally:
            shutil.rmtree(d, ignore_errors=True)
        progs.append({"name": f"graph:{n}", "mods": g['mods'], "entry": g['entry'], "second_entry": g['second_entry'], "expected": phases})
    os.makedirs('/verif/corpus/c17', exist_ok=True)
    json.dump({"note": "module graphs from the C17 generator with expected per-phase traces and outcomes (authoring-time cross-check with V8, node v20)", "graphs": progs}, open('/verif/corpus/c17/expected.json', 'w'), separators=(',', ':'))
    print(len(progs), "graphs written,", failed, "failed in node")

main()
