#!/bin/sh
# usage: tools/confirm_seeded.sh <seeded dir name> ...
# Confirms in a scratch worktree (/tmp/wt_own, outside /repo and /verif) that a seeded change
# (1) applies and compiles, (2) makes its demonstration fail, (3) passes the demonstration when
# reverted, (4) passes the existing unit tests of the crate it touches. Writes <dir>/confirm.json.
WT=/tmp/wt_own
export CARGO_NET_OFFLINE=true CARGO_TARGET_DIR=$WT/target
[ -d $WT ] || git -C /repo worktree add -q $WT HEAD
for name in "$@"; do
    D=/verif/seeded/$name
    cd $WT && git checkout -q -- . && git checkout -q --detach "$(git -C /repo rev-parse HEAD)" || exit 2
    if ! git apply "$D/patch.diff"; then echo "$name: patch does not apply"; continue; fi
    pkgs="-p boa_engine"; grep -q "core/gc/" "$D/patch.diff" && pkgs="-p boa_gc -p boa_engine"
    demo_with="n/a"; demo_without="n/a"
    if [ -d "$D/demo" ]; then
        rm -rf $WT/seeded_demo && cp -r "$D/demo" $WT/seeded_demo && cp $WT/Cargo.lock $WT/seeded_demo/
        sed -i "s#/tmp/wt_C[0-9]*[a-z]\\?#$WT#g" $WT/seeded_demo/Cargo.toml
        # observation-only extra binaries of some demos: `cargo run` must find exactly one binary
        rm -rf $WT/seeded_demo/src/bin
        (cd $WT/seeded_demo && cargo run --offline -q >$WT/demo_with.log 2>&1); demo_with=$?
    fi
    cargo test $pkgs --lib --offline >$WT/tests.log 2>&1; tests=$?
    summary=$(grep -E "^test result" $WT/tests.log | tr '\n' ' ')
    git checkout -q -- .
    if [ -d "$D/demo" ]; then
        (cd $WT/seeded_demo && cargo run --offline -q >$WT/demo_without.log 2>&1); demo_without=$?
    fi
    python3 - "$D" "$demo_with" "$demo_without" "$tests" "$summary" <<'PY'
import json,sys
d,dw,dwo,t,s=sys.argv[1:6]
json.dump({"demo_exit_with_change":dw,"demo_exit_without_change":dwo,"unit_tests_exit_with_change":t,"unit_tests_summary":s,
           "ok": (dw not in ("0","n/a")) and dwo=="0" and t=="0" if dw!="n/a" else t=="0"},open(d+"/confirm.json","w"),indent=1)
print(d, open(d+"/confirm.json").read())
PY
done
rm -rf $WT/seeded_demo
