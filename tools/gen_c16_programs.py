#!/usr/bin/env python3
"""Authoring-time only: grammar-generated promise / async programs whose print order exposes the
tick count of every step, with the expected trace taken from the specification's job-enqueue rules
as implemented by the node binary that happens to be on this image (never invoked by a check).
Writes /verif/corpus/c16/generated.json. Usage: tools/gen_c16_programs.py <node> <count> [seed]

Every program is 2..5 independent 'tasks' (labels A, B, …) started in the same synchronous turn, so
their relative order is decided only by how many promise jobs each step takes."""
import json, random, subprocess, sys, os

PRELUDE = "var __out=[]; function print(){ __out.push(Array.prototype.map.call(arguments, String).join(' ')); }\n"
POST = "\nsetTimeout(function(){ console.log(JSON.stringify(__out)); }, 30);\n"

HELPERS = r"""
function thenable(v, tag) { return { then(res, rej) { print(tag + ':then-called'); res(v); } }; }
function lazyThenable(v, tag) { return { get then() { print(tag + ':then-read'); return function (res) { res(v); }; } }; }
function rejThenable(e, tag) { return { then(res, rej) { print(tag + ':then-called'); rej(e); } }; }
function deferred() { var d = {}; d.promise = new Promise(function (a, b) { d.resolve = a; d.reject = b; }); return d; }
function ticks(n, tag) { var p = Promise.resolve(); for (let i = 1; i <= n; i++) p = p.then(function () { print(tag + ':tick' + i); }); return p; }
"""


class G:
    def __init__(self, rng):
        self.r = rng
        self.n = 0

    def uid(self):
        self.n += 1
        return self.n

    def pick(self, xs):
        return xs[self.r.randrange(len(xs))]

    # an expression that evaluates to something awaitable / resolvable; t = label prefix
    def source(self, t, depth=0):
        k = self.uid()
        c = self.r.randrange(13 if depth < 2 else 7)
        if c == 0:
            return f"{k}"
        if c == 1:
            return f"Promise.resolve({k})"
        if c == 2:
            return f"new Promise(function (res) {{ print('{t}:exec{k}'); res({k}); }})"
        if c == 3:
            return f"thenable({k}, '{t}{k}')"
        if c == 4:
            return f"lazyThenable({k}, '{t}{k}')"
        if c == 5:
            return f"Promise.resolve({k}).then(function (v) {{ print('{t}:inner{k}'); return v; }})"
        if c == 6:
            return f"(async function () {{ print('{t}:af{k}'); return {k}; }})()"
        if c == 7:
            return f"new Promise(function (res) {{ res({self.source(t, depth + 1)}); }})"
        if c == 8:
            return f"Promise.resolve({self.source(t, depth + 1)})"
        if c == 9:
            return f"(async function () {{ print('{t}:af{k}'); return {self.source(t, depth + 1)}; }})()"
        if c == 10:
            return f"(async function () {{ var v = await {self.source(t, depth + 1)}; print('{t}:af{k}', v); return v; }})()"
        if c == 11:
            items = ", ".join(self.source(t, depth + 1) for _ in range(self.r.randrange(0, 4)))
            comb = self.pick(["all", "race", "allSettled", "any"])
            post = ".then(function (v) { return JSON.stringify(v); })" if comb in ("all", "allSettled") else ""
            if comb in ("race", "any") and items == "":
                items = f"{k}"
            return f"Promise.{comb}([{items}]){post}"
        return f"ticks({self.r.randrange(1, 4)}, '{t}{k}').then(function () {{ return {k}; }})"

    def bad_source(self, t):
        k = self.uid()
        c = self.r.randrange(5)
        if c == 0:
            return f"Promise.reject('e{k}')"
        if c == 1:
            return f"rejThenable('e{k}', '{t}{k}')"
        if c == 2:
            return f"(async function () {{ throw 'e{k}'; }})()"
        if c == 3:
            return f"new Promise(function (res, rej) {{ rej('e{k}'); }})"
        return f"Promise.resolve().then(function () {{ throw 'e{k}'; }})"

    def any_source(self, t):
        return self.bad_source(t) if self.r.random() < 0.2 else self.source(t)

    def task_chain(self, t):
        s = self.any_source(t)
        out = f"({s})" if not s.startswith(("Promise", "thenable", "lazy", "rej", "ticks", "new", "(")) else s
        if not s.lstrip("(").startswith(("Promise", "new Promise", "ticks", "async")):
            out = f"Promise.resolve({s})"
        for i in range(self.r.randrange(1, 6)):
            k = self.uid()
            c = self.r.randrange(8)
            if c <= 2:
                ret = self.pick(["v", f"{k}", self.any_source(t), "undefined"])
                out += f"\n  .then(function (v) {{ print('{t}:then{k}', v); return {ret}; }})"
            elif c == 3:
                out += f"\n  .then(function (v) {{ print('{t}:then{k}', v); throw 'x{k}'; }})"
            elif c == 4:
                ret = self.pick(["e", self.any_source(t)])
                out += f"\n  .catch(function (e) {{ print('{t}:catch{k}', e); return {ret}; }})"
            elif c == 5:
                ret = self.pick(["undefined", self.any_source(t)])
                out += f"\n  .finally(function () {{ print('{t}:finally{k}'); return {ret}; }})"
            elif c == 6:
                out += f"\n  .then(function (v) {{ print('{t}:ok{k}', v); return v; }}, function (e) {{ print('{t}:err{k}', e); return 'r{k}'; }})"
            else:
                out += "\n  .then()"
        out += f"\n  .then(function (v) {{ print('{t}:end', v); }}, function (e) {{ print('{t}:fail', e); }});"
        return out

    def async_body(self, t, depth=0):
        lines = []
        for i in range(self.r.randrange(1, 5)):
            k = self.uid()
            c = self.r.randrange(9)
            if c <= 2:
                lines.append(f"var v{k} = await {self.source(t)}; print('{t}:aw{k}', v{k});")
            elif c == 3:
                lines.append(f"try {{ await {self.bad_source(t)}; print('{t}:unreached{k}'); }} catch (e) {{ print('{t}:caught{k}', e); }}")
            elif c == 4:
                lines.append(f"try {{ var w{k} = await {self.any_source(t)}; print('{t}:try{k}', w{k}); }} catch (e) {{ print('{t}:caught{k}', e); }} finally {{ print('{t}:fin{k}'); }}")
            elif c == 5 and depth < 2:
                inner = self.async_body(t, depth + 1)
                ret = self.pick([f"{k}", self.source(t)])
                lines.append(f"var r{k} = await (async function () {{ {inner} return {ret}; }})(); print('{t}:sub{k}', r{k});")
            elif c == 6:
                lines.append(f"for await (var x{k} of [{self.source(t)}, {self.source(t)}]) {{ print('{t}:fa{k}', x{k}); }}")
            elif c == 7:
                lines.append(f"await null; print('{t}:null{k}');")
            else:
                lines.append(f"print('{t}:step{k}');")
        return " ".join(lines)

    def task_async(self, t):
        ret = self.pick(["1", self.any_source(t), "undefined"])
        form = self.r.randrange(3)
        body = self.async_body(t)
        if form == 0:
            return f"(async function () {{ {body} return {ret}; }})().then(function (v) {{ print('{t}:end', v); }}, function (e) {{ print('{t}:fail', e); }});"
        if form == 1:
            return f"(async () => {{ {body} return {ret}; }})().then(function (v) {{ print('{t}:end', v); }}, function (e) {{ print('{t}:fail', e); }});"
        return f"({{ async m() {{ {body} return {ret}; }} }}).m().then(function (v) {{ print('{t}:end', v); }}, function (e) {{ print('{t}:fail', e); }});"

    def gen_body(self, t, is_async):
        lines = []
        for i in range(self.r.randrange(1, 5)):
            k = self.uid()
            c = self.r.randrange(8)
            if c <= 1:
                lines.append(f"var y{k} = yield {k}; print('{t}:resumed{k}', y{k});")
            elif c == 2 and is_async:
                lines.append(f"var y{k} = yield {self.source(t)}; print('{t}:resumed{k}', y{k});")
            elif c == 3 and is_async:
                lines.append(f"var a{k} = await {self.source(t)}; print('{t}:gaw{k}', a{k});")
            elif c == 4:
                if is_async and self.r.random() < 0.5:
                    lines.append(f"yield* (async function* () {{ print('{t}:inner{k}'); yield 'i{k}'; return 'ir{k}'; }})();")
                else:
                    lines.append(f"yield* [{k}, {self.source(t) if is_async else k + 1000}];")
            elif c == 5:
                lines.append(f"try {{ yield {k}; }} finally {{ print('{t}:gfin{k}'); }}")
            elif c == 6 and is_async:
                lines.append(f"try {{ yield {self.bad_source(t)}; print('{t}:after-bad{k}'); }} catch (e) {{ print('{t}:gcatch{k}', e); }}")
            else:
                lines.append(f"print('{t}:gstep{k}');")
        ret = self.pick([f"'ret'", self.source(t) if is_async else "'ret'"])
        return " ".join(lines) + f" return {ret};"

    def task_asyncgen(self, t):
        body = self.gen_body(t, True)
        k = self.uid()
        show = f"function (r) {{ print('{t}:res', JSON.stringify(r)); }}, function (e) {{ print('{t}:rej', e); }}"
        form = self.r.randrange(3)
        s = f"var g{k} = (async function* () {{ {body} }})();\n"
        if form == 0:
            s += f"(async function () {{ try {{ for await (var v of g{k}) {{ print('{t}:got', v); }} print('{t}:done'); }} catch (e) {{ print('{t}:loop-fail', e); }} }})();"
        else:
            calls = []
            for i in range(self.r.randrange(2, 6)):
                c = self.r.randrange(6)
                if c <= 3:
                    calls.append(f"g{k}.next('n{i}').then({show});")
                elif c == 4:
                    rv = self.pick(["'R'", self.source(t)])
                    calls.append(f"g{k}.return({rv}).then({show});")
                else:
                    calls.append(f"g{k}.throw('T{i}').then({show});")
            s += "\n".join(calls)
        return s

    def task_deferred(self, t, others):
        k = self.uid()
        s = f"var d{k} = deferred();\n"
        s += f"d{k}.promise.then(function (v) {{ print('{t}:settled', v); }}, function (e) {{ print('{t}:rejected', e instanceof Error ? e.name : e); }});\n"
        how = self.pick([f"d{k}.resolve({self.any_source(t)})", f"d{k}.reject('dr{k}')", f"d{k}.resolve(d{k}.promise)"])
        s += f"ticks({self.r.randrange(1, 5)}, '{t}w').then(function () {{ print('{t}:fire'); {how}; {how.split('(')[0].replace('reject', 'resolve')}('late'); }});"
        return s

    def task_subclass(self, t):
        k = self.uid()
        return (
            f"class P{k} extends Promise {{ then(a, b) {{ print('{t}:then-override'); return super.then(a, b); }} "
            f"static get [Symbol.species]() {{ print('{t}:species'); return Promise; }} }}\n"
            f"P{k}.resolve({self.source(t)}).then(function (v) {{ print('{t}:sub-then', v); return {self.any_source(t)}; }})"
            f".finally(function () {{ print('{t}:sub-fin'); }}).then(function (v) {{ print('{t}:end', v); }}, function (e) {{ print('{t}:fail', e); }});\n"
            f"(async function () {{ var v = await new P{k}(function (r) {{ r({k}); }}); print('{t}:aw-sub', v); }})();"
        )

    # ---- second set of task kinds (programs named gen2:*) ------------------------------------
    def task_gen_finally(self, t):
        k = self.uid()
        fin = self.pick([f"print('{t}:fin-a{k}'); await {self.source(t)}; print('{t}:fin-b{k}');",
                         f"print('{t}:fin-a{k}'); yield 'from-finally{k}'; print('{t}:fin-b{k}');",
                         f"print('{t}:fin{k}');",
                         f"print('{t}:fin{k}'); return 'finally-wins{k}';"])
        body = f"try {{ print('{t}:g-start'); yield {self.source(t)}; print('{t}:g-mid'); yield {k}; print('{t}:g-late'); }} finally {{ {fin} }} print('{t}:g-after'); return 'done{k}';"
        show = f"function (r) {{ print('{t}:res', JSON.stringify(r)); }}, function (e) {{ print('{t}:rej', e); }}"
        s = f"var g{k} = (async function* () {{ {body} }})();\n"
        calls = [f"g{k}.next().then({show});"]
        for i in range(self.r.randrange(1, 5)):
            c = self.r.randrange(5)
            if c <= 1:
                calls.append(f"g{k}.next('n{i}').then({show});")
            elif c == 2:
                rv = self.pick(["'R'", self.any_source(t)])
                calls.append(f"g{k}.return({rv}).then({show});")
            elif c == 3:
                calls.append(f"g{k}.throw('T{i}').then({show});")
            else:
                calls.append(f"ticks({self.r.randrange(1, 4)}, '{t}d{i}').then(function () {{ return g{k}.return('late{i}'); }}).then({show});")
        return s + "\n".join(calls)

    def task_forawait_exit(self, t):
        k = self.uid()
        wrap = self.pick(['Promise.resolve', 'thenable2', ''])
        ret = self.pick(['{ done: true }', 'Promise.resolve({ done: true })', 'thenable2({ done: true })'])
        sval = self.pick(['++this.i', 'Promise.resolve(++this.i)', "thenable(++this.i, '" + t + "v')"])
        src = self.pick([
            f"(async function* () {{ try {{ yield 1; yield {self.source(t)}; yield 3; }} finally {{ print('{t}:src-fin'); await null; print('{t}:src-fin2'); }} }})()",
            f"({{ i: 0, [Symbol.asyncIterator]() {{ return this; }}, next() {{ print('{t}:it-next'); return {wrap}({{ value: ++this.i, done: this.i > 3 }}); }}, return(v) {{ print('{t}:it-return'); return {ret}; }} }})",
            f"({{ i: 0, [Symbol.iterator]() {{ return this; }}, next() {{ print('{t}:sit-next'); return {{ value: {sval}, done: this.i > 3 }}; }}, return(v) {{ print('{t}:sit-return'); return {{ done: true }}; }} }})",
            f"[{self.source(t)}, {self.any_source(t)}, {self.source(t)}]",
        ])
        exit_ = self.pick(["break;", "continue;", f"throw 'loop{k}';", f"return 'early{k}';", f"await {self.source(t)};", ""])
        return (f"(async function () {{ try {{ for await (var x of {src}) {{ print('{t}:item', x); if (x === 2) {{ {exit_} }} print('{t}:item-end', x); }} print('{t}:loop-done'); }} "
                f"catch (e) {{ print('{t}:loop-caught', e instanceof Error ? e.name : e); }} finally {{ print('{t}:outer-fin'); }} return 'ret{k}'; }})()"
                f".then(function (v) {{ print('{t}:end', v); }}, function (e) {{ print('{t}:fail', e); }});")

    def task_yieldstar_custom(self, t):
        k = self.uid()
        wrap = self.pick(['Promise.resolve', 'thenable2', ''])
        ret = self.pick(["{ done: true, value: 'ir' }", "Promise.resolve({ done: true, value: 'ir' })", "{ done: false, value: 'not-yet' }"])
        sval = self.pick(['++this.i', 'Promise.resolve(++this.i)'])
        which = self.r.randrange(3)
        inner = ([
            f"({{ i: 0, [Symbol.asyncIterator]() {{ return this; }}, next(v) {{ print('{t}:in-next', v); return {wrap}({{ value: 'i' + (++this.i), done: this.i > 2 }}); }}, return(v) {{ print('{t}:in-return', v); return {ret}; }}, throw(e) {{ print('{t}:in-throw', e); return {{ done: true, value: 'it' }}; }} }})",
            f"({{ i: 0, [Symbol.iterator]() {{ return this; }}, next(v) {{ print('{t}:sin-next', v); return {{ value: {sval}, done: this.i > 2 }}; }}, return(v) {{ print('{t}:sin-return', v); return {{ done: true, value: 'sr' }}; }} }})",
            f"(function* () {{ try {{ var a = yield 's1'; print('{t}:sg-got', a); yield Promise.resolve('s2'); }} finally {{ print('{t}:sg-fin'); }} }})()",
        ])[which]
        show = f"function (r) {{ print('{t}:res', JSON.stringify(r)); }}, function (e) {{ print('{t}:rej', e instanceof Error ? e.name : e); }}"
        s = f"var g{k} = (async function* () {{ var r = yield* {inner}; print('{t}:delegate-result', r); return 'outer-done'; }})();\n"
        calls = []
        for i in range(self.r.randrange(2, 6)):
            c = self.r.randrange(6)
            if c <= 2:
                calls.append(f"g{k}.next('n{i}').then({show});")
            elif c <= 4 or which == 1:
                # (a sync iterator without `throw`: ES2025 changed what .throw() does, node 20 has the old rule)
                calls.append(f"g{k}.return('R{i}').then({show});")
            else:
                calls.append(f"g{k}.throw('T{i}').then({show});")
        return s + "\n".join(calls)

    def task_odd_thenables(self, t):
        k = self.uid()
        th = self.pick([
            f"{{ then(res) {{ print('{t}:th-called'); Promise.resolve().then(function () {{ print('{t}:th-late'); res({k}); }}); }} }}",
            f"{{ then(res, rej) {{ print('{t}:th-called'); res({k}); res('twice'); rej('ignored'); }} }}",
            f"{{ then(res) {{ print('{t}:th-called'); res({k}); throw 'after-resolve'; }} }}",
            f"{{ then(res) {{ print('{t}:th-called'); throw 'before-resolve{k}'; }} }}",
            f"{{ then(res) {{ print('{t}:th-called'); res({{ then(r2) {{ print('{t}:th-inner'); r2({k}); }} }}); }} }}",
            f"(function () {{ var p = Promise.resolve({k}); p.constructor = function () {{}}; return p; }})()",
            f"(function () {{ var p = Promise.resolve({k}); Object.defineProperty(p, 'then', {{ value: function (a, b) {{ print('{t}:own-then'); return Promise.prototype.then.call(this, a, b); }} }}); return p; }})()",
        ])
        use = self.pick([
            f"(async function () {{ var v = await {th}; print('{t}:awaited', v); return v; }})()",
            f"Promise.resolve({th})",
            f"new Promise(function (r) {{ r({th}); }})",
            f"Promise.resolve().then(function () {{ return {th}; }})",
            f"Promise.all([{th}, {self.source(t)}]).then(function (v) {{ return JSON.stringify(v); }})",
            f"Promise.race([{th}, {self.source(t)}])",
            f"Promise.resolve(1).finally(function () {{ return {th}; }})",
            f"(async function* () {{ yield {th}; }})().next().then(function (r) {{ return JSON.stringify(r); }})",
        ])
        return f"{use}.then(function (v) {{ print('{t}:end', v); }}, function (e) {{ print('{t}:fail', e); }});"

    def program2(self):
        n = self.r.randrange(2, 5)
        parts = []
        for i in range(n):
            t = "ABCDEF"[i]
            c = self.r.randrange(10)
            if c <= 1:
                parts.append(self.task_gen_finally(t))
            elif c <= 3:
                parts.append(self.task_forawait_exit(t))
            elif c <= 5:
                parts.append(self.task_yieldstar_custom(t))
            elif c <= 7:
                parts.append(self.task_odd_thenables(t))
            elif c == 8:
                parts.append(self.task_async(t))
            else:
                parts.append(self.task_chain(t))
        helpers2 = "function thenable2(v) { return { then(res) { res(v); } }; }\n"
        return HELPERS + helpers2 + "\n".join(parts) + "\nprint('sync-end');\n"

    def program(self):
        n = self.r.randrange(2, 6)
        parts = []
        for i in range(n):
            t = "ABCDEF"[i]
            c = self.r.randrange(10)
            if c <= 2:
                parts.append(self.task_chain(t))
            elif c <= 5:
                parts.append(self.task_async(t))
            elif c <= 7:
                parts.append(self.task_asyncgen(t))
            elif c == 8:
                parts.append(self.task_deferred(t, parts))
            else:
                parts.append(self.task_subclass(t))
        return HELPERS + "\n".join(parts) + "\nprint('sync-end');\n"


def run_node(node, src):
    r = subprocess.run([node, "-e", PRELUDE + src + POST], capture_output=True, text=True, timeout=20)
    if r.returncode != 0:
        return None, r.stderr[:300]
    try:
        return json.loads(r.stdout.strip().splitlines()[-1]), None
    except Exception as e:  # noqa
        return None, "unparsable output"


SET2 = os.environ.get("C16_SET") == "2"


def main():
    node, count = sys.argv[1], int(sys.argv[2])
    seed = int(sys.argv[3]) if len(sys.argv) > 3 else 20260922
    progs, skipped = [], 0
    i = 0
    while len(progs) < count and i < count * 3:
        g = G(random.Random(seed * 1000003 + i))
        src = g.program2() if SET2 else g.program()
        i += 1
        exp, err = run_node(node, src)
        if exp is None or len(exp) < 3:
            skipped += 1
            continue
        progs.append({"name": f"{'gen2' if SET2 else 'gen'}:{i - 1}", "src": src, "expected": exp})
    out = sys.argv[4] if len(sys.argv) > 4 else "/verif/corpus/c16/generated.json"
    json.dump({"note": "grammar-generated promise/async programs; expected traces per ECMAScript job ordering (authoring-time cross-check with V8, node v20)", "programs": progs}, open(out, "w"), indent=0)
    print(len(progs), "programs written,", skipped, "skipped (node error / trivial)")


main()
