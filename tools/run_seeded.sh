#!/bin/sh
# usage: tools/run_seeded.sh <seeded dir> [check ids...]
# Applies <dir>/patch.diff to /repo, runs the quick tier of the given checks (default: the
# "property" of meta.json), prints whether each raised a VIOLATION, and restores /repo.
D=$(cd "$1" && pwd); shift
ROOT=$(cd "$(dirname "$0")/.." && pwd)
if [ -n "$(git -C /repo status --porcelain)" ]; then echo "refusing: /repo has uncommitted changes"; exit 2; fi
IDS="$*"
[ -z "$IDS" ] && IDS=$(python3 -c "import json,sys; print(json.load(open('$D/meta.json'))['property'])")
git -C /repo apply "$D/patch.diff" || { echo "patch does not apply"; exit 2; }
trap 'git -C /repo checkout -- . ; git -C /repo clean -fdq core' EXIT
for id in $IDS; do
    out=$(VERIF_RUNS=${VERIF_RUNS:-} "$ROOT/check" "$id" quick 2>&1); rc=$?
    echo "== $id exit=$rc"
    echo "$out" | grep -E "VIOLATION|violation class|class=|HARNESS-ERROR" | head -8 | cut -c1-400
done
