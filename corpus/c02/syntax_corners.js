//# optional-call-spread-mixed
var f=function(){ return arguments.length; }, xs=[1,2], o={m:f}; print(f?.(1, ...xs), o?.m(...xs, 1), o.m?.('x', ...xs, 'z'), f?.(...xs), f?.(...xs, ...xs), null?.(1, ...xs), o?.n?.(1, ...xs));
//# optional-chain-delete
var o={a:{b:1}, m(){ return this; }}; print(delete o?.a.b, delete o?.m().a, delete o?.['a'], delete null?.x, delete o?.zz?.yy, typeof o?.a);
//# delete-optional-private
class A { #b = 1; static m(a) { return delete a?.#b; } } print(typeof A);
//# delete-optional-private-deep
class A2 { #b = 1; static m(a) { return delete a?.x.#b; } static n(a){ return delete (a?.#b); } } print(typeof A2);
//# optional-private-and-in
class P { #x=1; static has(o){ return #x in o; } static get(o){ return o?.#x; } static call(o){ return o?.#m?.(); } #m(){ return 'pm'; } static tag(o){ return o?.t`a${1}`; } } try { print(P.has(new P), P.has({}), P.get(new P), P.get(null), P.call(new P)); } catch (e) { print(e.name); }
//# optional-tagged-template
var o={t(s){ return s.raw.join('|'); }}; try { print(eval("o?.t`a${1}b`")); } catch (e) { print(e.name); }
//# optional-super
class B { m(){ return 'Bm'; } } class D extends B { m(){ return super.m?.() + super.zz?.() + super['m']?.(); } } print(new D().m());
//# import-call-deep-recursion
function r(n) { if (n === 0) return import('x').catch(function(){}); return r(n - 1); } for (var d = 0; d < 80; d++) r(d); print('after');
//# import-call-forms
try { import('a' + 'b').then(null, function(e){ print('rej', e && e.name); }); import(1).catch(function(){}); import({toString(){ throw 1; }}).catch(function(e){ print('ts', e); }); } catch (e) { print(e.name); } print(typeof import.meta === 'undefined' ? 'x' : 'y');
//# destructuring-defaults-self
try { for (const [a = (() => a)()] of [[]]) ; } catch (e) { print(e.name); } try { var {x = x} = {}; let {y = y} = {}; } catch (e) { print(e.name); } try { (function({a = b, b = 1} = {}){ })(); } catch (e) { print(e.name); }
//# destructuring-odd-targets
var o={}, arr=[]; [o.a, arr[0], ...o.rest] = [1,2,3,4]; ({a: o.b, ['c'+1]: arr[1], ...o.r2} = {a:5, c1:6, z:7}); class S { #p; set(v){ [this.#p, ...this.rest] = v; ({q: this.#p} = {q: 9}); return this.#p; } } print(JSON.stringify(o), arr.join(), new S().set([1,2]));
//# destructuring-super-target
class B2 { } class D2 extends B2 { m(){ [super.x, super['y']] = [1,2]; ({a: super.z} = {a:3}); return this.x + this.y + this.z; } } print(new D2().m());
//# labelled-continue-finally-generator
function* g(){ outer: for (var i=0;i<3;i++){ inner: for (var j=0;j<3;j++){ try { if (j==1) continue outer; if (i==2) break outer; yield i*10+j; } finally { yield 'f'+i+j; } } } } print([...g()].join());
//# finally-overrides
function f1(){ try { return 'try'; } finally { return 'finally'; } } function f2(){ for (var i=0;i<2;i++){ try { continue; } finally { break; } } return i; } function f3(){ lbl: try { throw 1; } finally { break lbl; } return 'after'; } function* g3(){ try { yield 1; } finally { return 'gen-finally'; } } var it=g3(); it.next(); print(f1(), f2(), f3(), JSON.stringify(it.return('x')));
//# class-static-blocks
class C1 { static x = 1; static { this.y = this.x + 1; var v = 5; try { throw 1; } catch { this.z = v; } } static #p = (() => { return C1.name; })(); static get p(){ return C1.#p; } static { C1.w = typeof await === 'undefined' ? 'no-await' : 'await'; } } print(C1.y, C1.z, C1.p, C1.w);
//# class-fields-arguments-newtarget
class F1 { a = typeof new.target; b = (() => typeof new.target)(); static c = typeof new.target; ['d' + 1] = this.a; static [Symbol.iterator] = 1; #e = eval('typeof new.target'); get e(){ return this.#e; } } var f=new F1(); print(f.a, f.b, F1.c, f.d1, f.e);
//# class-computed-keys-order
var log=[]; function k(n){ log.push(n); return n; } class K1 { [k('a')](){ } static [k('b')] = k('sb'); [k('c')] = k('ic'); get [k('d')](){ return 1; } static { k('blk'); } } new K1(); print(log.join());
//# class-heritage-odd
try { class X extends null { constructor(){ return Object.create(X.prototype); } } print(typeof new X()); class Y extends (class {}) {} class Z extends function(){} {} print(typeof Y, typeof Z); class W extends 5 {} } catch (e) { print(e.name); }
//# derived-constructor-paths
class B3 { constructor(){ this.b=1; } } class D3 extends B3 { constructor(k){ if (k==0) { super(); return; } if (k==1) return {alt:1}; if (k==2) { try { this.x; } catch (e) { print(e.name); } super(); super.b; } if (k==3) { (()=>super())(); } if (k==4) { eval('super()'); } } } for (var k=0;k<5;k++) try { print(JSON.stringify(new D3(k))); } catch (e) { print(k, e.name); } try { new D3(5); } catch (e) { print(e.name); }
//# arguments-mapped-unmapped
function m(a,b){ arguments[0]='A'; b='B'; delete arguments[1]; arguments[1]='z'; return [a,b,arguments.length,arguments[1]].join(); } function u(a,b=2){ arguments[0]='A'; return [a, arguments.length].join(); } function s(a){ 'use strict'; arguments[0]='A'; return a; } function e(a){ eval('var a = 5; var arguments = 1'); return a; } try { print(m(1,2), u(1), s(1), e(1)); } catch (x) { print(x.name); }
//# eval-var-scoping
function ev1(){ eval('var x = 1; function fx(){ return 2; }'); return x + fx(); } function ev2(){ 'use strict'; eval('var y = 1'); return typeof y; } function ev3(a = eval('var z = 3; z'), b = typeof z){ return [a,b,typeof z].join(); } var ind=(0,eval)('var gEv = 7; gEv'); let lx=1; try { eval('var lx = 2'); } catch (e) { print(e.name); } print(ev1(), ev2(), ev3(), ind, typeof gEv);
//# with-unscopables
var o={x:1, y:2, [Symbol.unscopables]:{y:true}}; var y='outer-y'; with (o) { x=10; y='assigned'; var z=x; } print(o.x, o.y, y, z); with ({get a(){ return 1; }, set a(v){ print('set', v); }}) { a=2; a+=1; typeof a; delete a; }
//# with-proxy-has
var log=[]; var p=new Proxy({v:1}, { has(t,k){ log.push('has:'+String(k)); return k in t; }, get(t,k,r){ log.push('get:'+String(k)); return t[k]; } }); with (p) { v; typeof nope; } print(log.join());
//# generators-odd
function* g1(){ var x = yield* [1,2]; var y = yield yield 3; return [x,y]; } var it=g1(); print(it.next().value, it.next().value, it.next().value, it.next('a').value, JSON.stringify(it.next('b'))); function* g2(a = yield){ } try { eval('function* g9(a = yield){ }'); } catch (e) { print(e.name); } var gen=(function*(){ try { yield 1; } finally { yield 2; } })(); gen.next(); print(JSON.stringify(gen.return(9)), JSON.stringify(gen.next()), JSON.stringify(gen.throw && gen.next()));
//# async-odd-syntax
var af=async (a=1, {b}={b:2}, ...c) => a+b+c.length; var o={ async *ag(){ yield await 1; }, async am(){ return await this; }, get async(){ return 1; }, async: 2, await: 3 }; async function await1(){ var await2 = 1; return await2; } try { eval('async function af2(){ var await = 1; }'); } catch (e) { print(e.name); } af().then(function(v){ print('af', v); }); print(o.async, o.await);
//# label-contextual-keywords
yield: for(;;){ break yield; } async: { break async; } of: { break of; } let1: { var let2 = 1; } static1: { } try { eval('await: 1;'); } catch (e) { print('await-label', e.name); } var yield1 = 1, async = 2, of = 3, get = 4, set = 5, from = 6, as = 7; print(async + of + get + set + from + as);
//# numeric-literals
print(1_000, 0b1_0, 0o7_7, 0xF_F, 1e1_0, .5e-2, 08.5, 0.0_1, 1n, 0x1Fn, 1_0n, 5..toString(), 5 .toFixed(1), 1e400, -1e-400, 0.1+0.2, 0o17, 017, 09);
//# string-escapes
print('\u{1F600}'.length, '\u{0}\x00\0'.length, '\
cont', `\u{10FFFF}`.length, String.raw`\u{110000}\x`, 'a b'.length, "\u{D800}\u{DC00}".length, '\8\9', '\07\78'.length);
try { eval("'\\u{110000}'"); } catch (e) { print(e.name); } try { eval("`\\u{110000}`"); } catch (e) { print(e.name); }
//# regexp-odd
try { print(/(?<a>x)|(?<a>y)/.exec('y').groups.a, /(?<=(\d)\1)z/.exec('11z') && 'lb', /[\p{L}--[a-z]]/v.test('A'), /\u{1F600}/u.test('\u{1F600}'), /a/y.exec('ba'), 'aaa'.replace(/a/g, '$<'), 'x'.replace(/(?<n>x)/, '$<n>$<m>$<'), /[^]/s.test('\n'), /(?:)/gu[Symbol.split]('\u{1F600}').length); } catch (e) { print(e.name, e.message); }
//# regexp-lastindex-surrogates
var r=/./gu; r.lastIndex=1; print(JSON.stringify(r.exec('\u{1F600}a')), r.lastIndex); var s=/a/y; s.lastIndex=5; print(s.test('a'), s.lastIndex); var g=/\b/g; g.lastIndex=2**32; print(g.test('a'), g.lastIndex); print('\u{1F600}'.match(/./g).length, '\u{1F600}'.split('').length, [...'\u{1F600}'.matchAll(/(?:)/gu)].length);
//# string-builtins-edges
try { print('abc'.padStart(5,''), 'abc'.at(-4), 'abc'.substring(NaN, 2), 'abc'.substr(-2, 1e9), 'a'.repeat(0), 'abc'.lastIndexOf('c', -Infinity), 'abc'.normalize('NFD'), 'abc'.localeCompare('abd'), 'x'.codePointAt(5), 'abc'.slice(2**53, -(2**53)), 'a-b'.split('-', 2**32+1).length, 'aXbX'.replaceAll('X', '$&$`$\''), String.fromCodePoint(0x10FFFF).length); 'x'.repeat(-1); } catch (e) { print(e.name); } try { String.fromCodePoint(0x110000); } catch (e) { print(e.name); }
//# array-length-edges
var al={length: 2**53-1, 0:'a', [2**53-2]:'z'}; try { print(Array.prototype.lastIndexOf.call(al,'z'), Array.prototype.at.call(al,-1), Array.prototype.includes.call(al,'q', 2**53-3), Array.prototype.indexOf.call({length:-0},1), Array.prototype.fill.call({length:3}, 1, -0, NaN).length, Array.prototype.copyWithin.call({length:5,0:1,1:2}, 3, 0, Infinity)[3], Array.prototype.slice.call(al, 2**53-3).length, Array.prototype.with.call({length:2,0:1,1:2}, -1, 9)[1], Array.prototype.toSpliced.call({length:2,0:1,1:2}, 1, Infinity, 7).join()); } catch (e) { print(e.name, e.message); } try { Array.prototype.push.call(al, 1); } catch (e) { print(e.name); } try { Array.prototype.splice.call(al, 0, 0, 1); } catch (e) { print(e.name); } try { Array.prototype.concat.call(al, [1]); } catch (e) { print(e.name); } try { [].flat(Infinity); [[[[1]]]].flat(Infinity); new Array(2**32); } catch (e) { print(e.name); }
//# typedarray-resizable-edges
try { var rab=new ArrayBuffer(8,{maxByteLength:16}); var lt=new Uint8Array(rab,2); var fx=new Uint16Array(rab,2,2); rab.resize(3); print(lt.length, fx.length, lt.subarray(0).length, lt.slice(0,5).length); rab.resize(1); print(lt.length, lt.byteOffset, fx.byteLength); try { lt.set([1]); } catch (e) { print(e.name); } try { lt.subarray(0); } catch (e) { print(e.name); } rab.resize(16); print(lt.length); var dv=new DataView(rab, 4); rab.resize(2); try { dv.getUint8(0); } catch (e) { print(e.name); } try { new DataView(rab, 0, 2**53); } catch (e) { print(e.name); } var t=rab.transfer(0); print(rab.detached, t.byteLength, lt.length); } catch (e) { print('outer', e.name, e.message); }
//# number-format-edges
try { print((25).toString(36), (0.5).toString(2), (-255).toString(16), (1e21).toFixed(2), (1.005).toFixed(2), (0).toPrecision(1), (123.456).toPrecision(100), (1e-7).toExponential(), (5e-324).toString(2).length, Number.MAX_VALUE.toString(2).length, (2**53).toString(36), BigInt.asUintN(64, -1n), BigInt.asIntN(0, 5n), BigInt.asUintN(2**53-1, 1n)); } catch (e) { print(e.name, e.message); } try { (1).toFixed(101); } catch (e) { print(e.name); } try { (1).toString(1); } catch (e) { print(e.name); } try { BigInt.asUintN(2**53, 1n); } catch (e) { print(e.name); } try { 2n**(2n**40n); } catch (e) { print(e.name); }
//# date-extremes
try { print(new Date(8.64e15).toISOString(), new Date(8.64e15+1).getTime(), new Date(-8.64e15).getUTCFullYear(), new Date(NaN).getTime(), Date.UTC(275760, 8, 13), Date.UTC(275760, 8, 14), new Date(2020, 0, 1, 0, 0, 0, 1e20).getTime(), new Date(0).setFullYear(1e9), Date.parse('+275760-09-13T00:00:00.000Z'), Date.parse('x'), new Date(1e81).toString()); new Date(NaN).toISOString(); } catch (e) { print(e.name); }
//# proxy-invariants
var t={}; Object.defineProperty(t,'nc',{value:1,configurable:false}); Object.preventExtensions(t); var p=new Proxy(t,{ ownKeys(){ return ['x']; }, getOwnPropertyDescriptor(t,k){ return k=='nc' ? undefined : {value:1,configurable:true}; }, has(){ return false; }, get(){ return 2; }, deleteProperty(){ return true; }, defineProperty(){ return true; }, getPrototypeOf(){ return Array.prototype; }, isExtensible(){ return true; } }); var tests=[function(){ return Object.keys(p); }, function(){ return Object.getOwnPropertyDescriptor(p,'nc'); }, function(){ return 'nc' in p; }, function(){ return p.nc; }, function(){ return delete p.nc; }, function(){ return Object.defineProperty(p,'q',{value:1}); }, function(){ return Object.getPrototypeOf(p); }, function(){ return Object.isExtensible(p); }, function(){ return JSON.stringify(p); }, function(){ for (var k in p) ; }]; print(tests.map(function(f){ try { return String(f()); } catch (e) { return e.name; } }).join());
//# symbol-toprimitive-chains
var o={ [Symbol.toPrimitive](h){ return h=='number' ? {} : 1; } }; var q={ valueOf(){ return {}; }, toString(){ return {}; } }; var r={ [Symbol.toPrimitive]: 5 }; [function(){ return +o; }, function(){ return `${o}`; }, function(){ return o+''; }, function(){ return +q; }, function(){ return r+1; }, function(){ return o < o; }, function(){ return [o]+''; }, function(){ return ({})[o]; }, function(){ return new Date(o).getTime(); }, function(){ return BigInt(o); }, function(){ return 1n + o; }].forEach(function(f){ try { print(String(f())); } catch (e) { print(e.name); } });
//# getter-setter-odd
var o={ get 1(){ return 'n'; }, set 1(v){ }, get 'str'(){ return 's'; }, get [Symbol.iterator](){ return 'sym'; }, get get(){ return 'gg'; }, set set(v){ this._s=v; }, async get2(){ }, *set2(){ }, get 0x10(){ return 16; }, get 1n(){ return 'big'; }, __proto__: { inherited: 1 }, ['__proto__']: 2 }; o.set=3; print(o[1], o.str, o[Symbol.iterator], o.get, o._s, o[16], o['1'], o.inherited, Object.keys(o).join());
//# spread-holes-iterclose
var log=[]; var it={ [Symbol.iterator](){ var i=0; return { next(){ return {done:i++>2, value:i}; }, return(){ log.push('ret'); return {}; } }; } }; var [a,,b]=it; var [c]=it; try { var [d=(()=>{ throw 1; })()] = it; } catch (e) { log.push('thrown'); } function f(...r){ return r.length; } print(a,b,c,f(...it, ...[,,], ...'ab'), [...[,1,,]].length, log.join(), Math.max(...[]), String([...new Set([1,1,2])]));
//# tagged-template-cache
function tag(s){ return s; } function site(){ return tag`a${1}b`; } var s1=site(), s2=site(), s3=eval('tag`a${1}b`'), s4=(function(){ return tag`a${1}b`; })(); print(s1===s2, s1===s3, s1===s4, Object.isFrozen(s1), s1.raw.length, tag`\unicode`[0], tag`\u{110000}`.raw[0]);
//# html-comments-hashbang
var x = 1; <!-- html open comment
--> html close comment at line start
x = x + 1; /* multi
*/ --> after multiline comment
print(x, 1 <!--2
);
//# asi-hazards
var a = 1
var b = a
++a
var c = [1,2]
[0]
var d = function(){ return 1 }
(function(){})
try { var e = a
`t` } catch (x) { print(x.name) }
var f = 1
/2/1
print(a, b, c, typeof d, f)
//# unicode-identifiers
var ab = 1, ℮ = 2, ゛ = 3, a‌b = 4, $ = 5, _ = 6, ᢅ = 7; var \u{61}c = 8; try { eval('var \\u0020x = 1'); } catch (e) { print(e.name); } try { eval('var a\\u0020b = 1'); } catch (e) { print(e.name); } try { eval('var v\\u{D800} = 1'); } catch (e) { print(e.name); } try { eval('\\u0076ar y = 1'); } catch (e) { print(e.name); } print(ab + ℮ + ゛ + a‌b + ac);
//# deep-nesting
print(((((((((((((((((((((((((((((((1))))))))))))))))))))))))))))))), [[[[[[[[[[[[[[[[[[[[1]]]]]]]]]]]]]]]]]]]].flat(Infinity)[0], (function(){ return function(){ return function(){ return function(){ return function(){ return 5; }; }; }; }; })()()()()(), {a:{a:{a:{a:{a:{a:{a:{a:{a:1}}}}}}}}}.a.a.a.a.a.a.a.a.a, `${`${`${`${`${1}`}`}`}`}`);
//# switch-odd
function sw(x){ switch (x) { case 1: let a = 'one'; default: try { a; return 'd:'+a; } catch (e) { return e.name; } case 2: { return 'two'; } case (()=>3)(): return 'three'; } } function sw2(x){ l: switch (x) { case 1: for (;;) { break l; } case 2: return 'fall'; } return 'out'; } print(sw(1), sw(2), sw(3), sw(9), sw2(1), sw2(2));
//# for-in-of-odd
var o={a:1,b:2}; for (var k in o) { delete o.b; o.c=3; } var seen=[]; for (var [x, y=x] of [[1],[2,3]]) seen.push(x+':'+y); for (let i=0, f=()=>i; i<2; i++) seen.push(f()); for (var z in null) ; for (var w in 'ab') seen.push(w); try { for (var q of 5) ; } catch (e) { seen.push(e.name); } for (const c of [1]) { try { c = 2; } catch (e) { seen.push(e.name); } } for (var i = 0 in {}) ; print(seen.join(), k, i);
//# getter-on-global-during-name-lookup
Object.defineProperty(globalThis, 'gAcc', { get(){ delete globalThis.gAcc; return 'once'; }, configurable: true }); print(gAcc, typeof gAcc); Object.defineProperty(globalThis, 'gThrow', { get(){ throw new RangeError('g'); }, configurable: true }); try { gThrow; } catch (e) { print(e.name); } try { typeof gThrow; } catch (e) { print('typeof', e.name); } try { gThrow = 1; gThrow++; } catch (e) { print(e.name); }
//# new-target-meta
function NT(){ return typeof new.target; } var arrow=(function(){ return () => typeof new.target; }); print(NT(), new NT() instanceof NT, new (arrow.call({}))() === undefined) ;
//# sort-inconsistent-comparators
var n=0; var cmps=[function(){ return 1; }, function(){ return -1; }, function(){ return NaN; }, function(){ }, function(a,b){ n++; return n%5==0 ? a-b : undefined; }, function(a,b){ n++; return (n*7)%3-1; }, function(a,b){ return b-a+((n++)%2); }, function(a,b){ return a<b ? 1 : 1; }, function(a,b){ n++; return n%2 ? 1 : -1; }];
var out=[]; [3,8,21,40,70,150].forEach(function(len){ cmps.forEach(function(c,ci){ var a=[]; for (var i=0;i<len;i++) a.push((i*31+6)%17); try { a.sort(c); out.push(a.length); } catch (e) { out.push(e.name); } try { var t=new Int16Array(a); t.sort(c); if (a.toSorted) a.toSorted(c); if (t.toSorted) t.toSorted(c); } catch (e) { out.push(e.name); } }); });
print('sorted', out.length, [5,1,4].sort(function(a,b){ return a-b; }).join());
