// Litmus programs for promise-job ordering. Sections are separated by lines starting with "//# name".
// Each program only prints through print(); expectations are produced at authoring time (see tools/make_c16_expected.py).
//# race-chains
var log=[]; function chain(name, n){ var p=Promise.resolve(); for (let i=0;i<n;i++) p=p.then(function(){ log.push(name+i); }); return p; }
Promise.all([chain('a',3), chain('b',5), chain('c',1)]).then(function(){ print(log.join(',')); });
//# await-kinds
var log=[]; function ticker(n){ var p=Promise.resolve(); for (let i=0;i<n;i++) p=p.then(function(){ log.push('t'+i); }); }
async function a1(){ log.push('a1s'); await 1; log.push('a1e'); }
async function a2(){ log.push('a2s'); await Promise.resolve(1); log.push('a2e'); }
async function a3(){ log.push('a3s'); await {then(r){ log.push('a3then'); r(1); }}; log.push('a3e'); }
async function a4(){ log.push('a4s'); await new Promise(function(r){ r(Promise.resolve(1)); }); log.push('a4e'); }
a1(); a2(); a3(); a4(); ticker(6); Promise.resolve().then(function(){}).then(function(){}).then(function(){}).then(function(){}).then(function(){}).then(function(){}).then(function(){ print(log.join(',')); });
//# return-vs-return-await
var log=[]; function ticker(n){ var p=Promise.resolve(); for (let i=0;i<n;i++) p=p.then(function(){ log.push('t'+i); }); return p; }
async function r1(){ return Promise.resolve('r1'); } async function r2(){ return await Promise.resolve('r2'); } async function r3(){ return 'r3'; } async function r4(){ return {then(res){ res('r4'); }}; }
r1().then(function(v){ log.push(v); }); r2().then(function(v){ log.push(v); }); r3().then(function(v){ log.push(v); }); r4().then(function(v){ log.push(v); });
ticker(6).then(function(){ print(log.join(',')); });
//# resolve-with-promise
var log=[]; function ticker(n){ var p=Promise.resolve(); for (let i=0;i<n;i++) p=p.then(function(){ log.push('t'+i); }); return p; }
var inner=Promise.resolve('in'); new Promise(function(r){ r(inner); }).then(function(v){ log.push('A:'+v); }); Promise.resolve(inner).then(function(v){ log.push('B:'+v); });
Promise.resolve().then(function(){ return inner; }).then(function(v){ log.push('C:'+v); }); Promise.resolve().then(function(){ return 'plain'; }).then(function(v){ log.push('D:'+v); });
ticker(7).then(function(){ print(log.join(',')); });
//# thenable-job
var log=[]; function ticker(n){ var p=Promise.resolve(); for (let i=0;i<n;i++) p=p.then(function(){ log.push('t'+i); }); return p; }
var th={ then(res, rej){ log.push('then-called'); res('th'); log.push('after-res'); rej('ignored'); } }; Promise.resolve(th).then(function(v){ log.push('got:'+v); });
var th2={ get then(){ log.push('then-get'); return function(res){ res(th); }; } }; Promise.resolve(th2).then(function(v){ log.push('got2:'+v); });
var bad={ get then(){ throw new Error('getter'); } }; Promise.resolve(bad).catch(function(e){ log.push('bad:'+e.message); });
log.push('sync'); ticker(7).then(function(){ print(log.join(',')); });
//# finally-ticks
var log=[]; function ticker(n){ var p=Promise.resolve(); for (let i=0;i<n;i++) p=p.then(function(){ log.push('t'+i); }); return p; }
Promise.resolve('v').finally(function(){ log.push('f1'); }).then(function(v){ log.push('after-f1:'+v); });
Promise.reject(new Error('e')).finally(function(){ log.push('f2'); return 'ignored'; }).catch(function(e){ log.push('after-f2:'+e.message); });
Promise.resolve('v').finally(function(){ log.push('f3'); throw new Error('fromf3'); }).catch(function(e){ log.push('after-f3:'+e.message); });
Promise.resolve('v').finally(function(){ return new Promise(function(r){ r(); }); }).then(function(v){ log.push('after-f4:'+v); });
ticker(8).then(function(){ print(log.join(',')); });
//# combinators
var log=[]; function ticker(n){ var p=Promise.resolve(); for (let i=0;i<n;i++) p=p.then(function(){ log.push('t'+i); }); return p; }
function later(v,n){ var p=Promise.resolve(); for (var i=0;i<n;i++) p=p.then(function(){}); return p.then(function(){ return v; }); }
Promise.all([later('a',2), 'b', later('c',0)]).then(function(v){ log.push('all:'+v.join('')); });
Promise.race([later('slow',3), later('fast',1)]).then(function(v){ log.push('race:'+v); });
Promise.any([Promise.reject(1), later('any',2)]).then(function(v){ log.push(v); }); Promise.any([Promise.reject(1), Promise.reject(2)]).catch(function(e){ log.push('agg:'+e.errors.join('')); });
Promise.allSettled([later('x',1), Promise.reject('y')]).then(function(v){ log.push('settled:'+v.map(function(r){ return r.status[0]+(r.value||r.reason); }).join('')); });
Promise.all([]).then(function(v){ log.push('empty:'+v.length); }); Promise.race([]).then(function(){ log.push('never'); });
ticker(10).then(function(){ print(log.join(',')); });
//# async-generator-queue
var log=[]; function ticker(n){ var p=Promise.resolve(); for (let i=0;i<n;i++) p=p.then(function(){ log.push('t'+i); }); return p; }
async function* g(){ log.push('g:start'); var x=yield 1; log.push('g:x='+x); try { yield Promise.resolve(2); var y=yield 3; log.push('g:y='+y); } finally { log.push('g:fin'); await null; log.push('g:fin2'); } return Promise.resolve('ret'); }
var it=g(); it.next('a').then(function(r){ log.push('n1:'+r.value+r.done); }); it.next('b').then(function(r){ log.push('n2:'+r.value+r.done); }); it.next('c').then(function(r){ log.push('n3:'+r.value+r.done); }); it.return('early').then(function(r){ log.push('ret:'+r.value+r.done); }); it.next('d').then(function(r){ log.push('n5:'+r.value+r.done); });
ticker(14).then(function(){ print(log.join(',')); });
//# async-generator-throw-return
var log=[]; function ticker(n){ var p=Promise.resolve(); for (let i=0;i<n;i++) p=p.then(function(){ log.push('t'+i); }); return p; }
async function* g(){ try { yield 1; yield 2; } catch(e){ log.push('caught:'+e); yield 'recovered'; } return 'end'; }
var a=g(); a.next().then(function(r){ log.push('a1:'+r.value); }); a.throw('boom').then(function(r){ log.push('a2:'+r.value+r.done); }); a.next().then(function(r){ log.push('a3:'+r.value+r.done); }); a.next().then(function(r){ log.push('a4:'+r.value+r.done); });
var b=g(); b.throw('first').catch(function(e){ log.push('b1:'+e); }); b.next().then(function(r){ log.push('b2:'+r.done); });
var c=g(); c.return(Promise.resolve('pr')).then(function(r){ log.push('c1:'+r.value+r.done); });
ticker(12).then(function(){ print(log.join(',')); });
//# yield-star-async
var log=[]; function ticker(n){ var p=Promise.resolve(); for (let i=0;i<n;i++) p=p.then(function(){ log.push('t'+i); }); return p; }
async function* inner(){ yield 'i1'; yield Promise.resolve('i2'); return 'iret'; } function* syncInner(){ yield 's1'; yield Promise.resolve('s2'); return 'sret'; }
async function* outer(){ var r=yield* inner(); log.push('r='+r); var s=yield* syncInner(); log.push('s='+s); yield 'last'; }
(async function(){ for await (var v of outer()) log.push('v='+v); log.push('loop-done'); })();
ticker(22).then(function(){ print(log.join(',')); });
//# for-await-sync-iterable
var log=[]; function ticker(n){ var p=Promise.resolve(); for (let i=0;i<n;i++) p=p.then(function(){ log.push('t'+i); }); return p; }
(async function(){ for await (var v of [1, Promise.resolve(2), {then(r){ r(3); }}]) log.push('v'+v); log.push('done1'); })();
(async function(){ try { for await (var v of [Promise.reject(new Error('rej'))]) log.push('never'); } catch(e){ log.push('caught:'+e.message); } })();
(async function(){ var closed=false; var it={ [Symbol.iterator](){ return { next(){ return {value:1, done:false}; }, return(){ closed=true; return {}; } }; } }; for await (var v of it){ break; } log.push('closed:'+closed); })();
ticker(12).then(function(){ print(log.join(',')); });
//# async-function-errors
var log=[]; function ticker(n){ var p=Promise.resolve(); for (let i=0;i<n;i++) p=p.then(function(){ log.push('t'+i); }); return p; }
async function t1(){ throw new Error('sync-throw'); } async function t2(){ await null; throw new Error('late-throw'); } async function t3(){ try { await Promise.reject(new Error('inner')); } finally { log.push('t3fin'); await null; log.push('t3fin2'); } }
async function t4(){ try { return await t2(); } catch(e){ log.push('t4:'+e.message); return 'rec'; } }
t1().catch(function(e){ log.push('c1:'+e.message); }); t2().catch(function(e){ log.push('c2:'+e.message); }); t3().catch(function(e){ log.push('c3:'+e.message); }); t4().then(function(v){ log.push('v4:'+v); });
ticker(10).then(function(){ print(log.join(',')); });
//# subclass-and-species
var log=[]; function ticker(n){ var p=Promise.resolve(); for (let i=0;i<n;i++) p=p.then(function(){ log.push('t'+i); }); return p; }
class MyP extends Promise { then(a,b){ log.push('MyP.then'); return super.then(a,b); } } var m=MyP.resolve(1); m.then(function(v){ log.push('m:'+v); });
async function af(){ await m; log.push('after-await-myp'); } af(); Promise.resolve(m).then(function(v){ log.push('wrapped:'+v); });
class NoSpecies extends Promise { static get [Symbol.species](){ return Promise; } } var ns=NoSpecies.resolve(2).then(function(v){ return v; }); log.push('ns is plain:'+(ns.constructor===Promise));
ticker(8).then(function(){ print(log.join(',')); });
//# then-edge-cases
var log=[]; function ticker(n){ var p=Promise.resolve(); for (let i=0;i<n;i++) p=p.then(function(){ log.push('t'+i); }); return p; }
Promise.resolve('pass').then(null, undefined).then(5).then(function(v){ log.push('v:'+v); }); Promise.reject('rj').then(function(){ log.push('never'); }).then(undefined, function(e){ log.push('e:'+e); });
var p=Promise.resolve('same'); p.then(function(){ log.push('first'); }); p.then(function(){ log.push('second'); }); p.then(function(){ p.then(function(){ log.push('nested'); }); log.push('third'); });
var settled=new Promise(function(res, rej){ res('one'); res('two'); rej('three'); }); settled.then(function(v){ log.push('settled:'+v); });
var self=Promise.resolve().then(function(){ return self; }); self.catch(function(e){ log.push('self:'+e.name); });
ticker(7).then(function(){ print(log.join(',')); });
//# executor-and-constructor
var log=[]; function ticker(n){ var p=Promise.resolve(); for (let i=0;i<n;i++) p=p.then(function(){ log.push('t'+i); }); return p; }
new Promise(function(res){ log.push('ex1'); res('a'); log.push('ex1b'); }).then(function(v){ log.push('v1:'+v); }); new Promise(function(){ throw new Error('inexec'); }).catch(function(e){ log.push('c:'+e.message); });
new Promise(function(res, rej){ res('won'); throw new Error('ignored'); }).then(function(v){ log.push('v2:'+v); }); var resolveLater; var pl=new Promise(function(r){ resolveLater=r; }); pl.then(function(v){ log.push('later:'+v); });
Promise.resolve().then(function(){ resolveLater('now'); log.push('resolved-in-job'); }); var w=Promise.withResolvers ? Promise.withResolvers() : null; if (w){ w.promise.then(function(v){ log.push('wr:'+v); }); w.resolve('x'); } else { Promise.resolve('x').then(function(v){ log.push('wr:'+v); }); }
log.push('sync'); ticker(6).then(function(){ print(log.join(',')); });
//# interleaved-async-and-then
var log=[]; async function w(name, n){ for (var i=0;i<n;i++){ log.push(name+i); await null; } return name; }
var p=Promise.resolve(); for (let i=0;i<6;i++) p=p.then(function(){ log.push('p'+i); });
Promise.all([w('x',3), w('y',2), p]).then(function(r){ print(log.join(','), r.slice(0,2).join('')); });
//# nested-jobs-and-microtask-depth
var log=[]; function deep(n){ if (n==0){ log.push('bottom'); return; } Promise.resolve().then(function(){ log.push('d'+n); deep(n-1); }); } deep(4);
Promise.resolve().then(function(){ log.push('A'); Promise.resolve().then(function(){ log.push('A1'); Promise.resolve().then(function(){ log.push('A2'); }); }); }).then(function(){ log.push('B'); });
var p=Promise.resolve(); for (let i=0;i<8;i++) p=p.then(function(){ log.push('t'+i); }); p.then(function(){ print(log.join(',')); });
