// Home-realm census: every object the engine creates on behalf of this realm must carry THIS
// realm's intrinsics. Self-checking: prints one line per phase, "census ok <n>" or the failures.
(function () {
  var O = Object, gp = Object.getPrototypeOf, fails = [], n = 0;
  var OP = Object.prototype, AP = Array.prototype, FP = Function.prototype, PP = Promise.prototype;
  function is(name, obj, proto) { n++; var p; try { p = gp(obj); } catch (e) { fails.push(name + ':threw ' + e); return; } if (p !== proto) fails.push(name); }
  function own(name, obj, C) { is(name, obj, C.prototype); n++; if (!(obj instanceof C)) fails.push(name + ':instanceof'); }
  function thrown(name, f, C) { n++; try { f(); fails.push(name + ':no-throw'); } catch (e) { if (gp(e) !== C.prototype) fails.push(name); } }
  // iterator result objects of every built-in iterator kind
  is('iterres-array', [1].values().next(), OP);
  is('iterres-array-done', [].values().next(), OP);
  is('iterres-string', 'a'[Symbol.iterator]().next(), OP);
  is('iterres-map', new Map([[1, 2]]).entries().next(), OP);
  is('iterres-set', new Set([1]).values().next(), OP);
  is('iterres-generator', (function* () { yield 1; })().next(), OP);
  is('iterres-generator-return', (function* () { yield 1; })().return(5), OP);
  is('iterres-matchall', 'a'.matchAll(/a/g).next(), OP);
  if (typeof Iterator === 'function' && Iterator.prototype.map) {
    is('iterres-helper', [1].values().map(function (x) { return x; }).next(), OP);
    is('iterres-helper-take', [1].values().take(1).next(), OP);
    own('helper-toArray', [1].values().toArray(), Array);
  }
  if (typeof RegExp.prototype[Symbol.matchAll] === 'function') is('iterres-segment', /a/g[Symbol.matchAll]('aa').next(), OP);
  // arrays and pairs made by built-ins
  own('entry-pair', new Map([[1, 2]]).entries().next().value, Array);
  own('array-entries-pair', ['x'].entries().next().value, Array);
  own('object-entries', O.entries({ a: 1 }), Array);
  own('object-entries-pair', O.entries({ a: 1 })[0], Array);
  own('object-keys', O.keys({ a: 1 }), Array);
  own('object-values', O.values({ a: 1 }), Array);
  own('own-names', O.getOwnPropertyNames({ a: 1 }), Array);
  own('own-symbols', O.getOwnPropertySymbols({}), Array);
  own('reflect-ownkeys', Reflect.ownKeys({ a: 1 }), Array);
  own('split', 'a,b'.split(','), Array);
  own('match', 'abc'.match(/b/), Array);
  own('match-g', 'abb'.match(/b/g), Array);
  own('exec', /b/.exec('abc'), Array);
  own('exec-indices', /b/d.exec('abc').indices, Array);
  own('exec-indices-pair', /b/d.exec('abc').indices[0], Array);
  n++; if (gp(/(?<k>b)/.exec('abc').groups) !== null) fails.push('groups-proto');
  own('map', [1].map(function (x) { return x; }), Array);
  own('filter', [1].filter(function () { return true; }), Array);
  own('slice', [1].slice(), Array); own('splice', [1, 2].splice(0, 1), Array); own('concat', [1].concat([2]), Array);
  own('flat', [[1]].flat(), Array); own('flatMap', [1].flatMap(function (x) { return [x]; }), Array);
  own('array-of', Array.of(1), Array); own('array-from', Array.from('ab'), Array); own('array-from-iter', Array.from(new Set([1])), Array);
  if (AP.toSorted) { own('toSorted', [2, 1].toSorted(), Array); own('toReversed', [1].toReversed(), Array); own('with', [1].with(0, 2), Array); own('toSpliced', [1].toSpliced(0, 1), Array); }
  own('rest', (function () { return (function (a, ...r) { return r; })(1, 2); })(), Array);
  own('spread', (function () { return [...'ab']; })(), Array);
  own('destructure-rest', (function () { var [a, ...r] = [1, 2]; return r; })(), Array);
  own('template-strings', (function (s) { return s; })`a${1}b`, Array);
  own('template-raw', (function (s) { return s.raw; })`a${1}b`, Array);
  own('typedarray-from', Array.from(new Uint8Array(2)), Array);
  own('json-array', JSON.parse('[1]'), Array);
  own('json-object', JSON.parse('{"a":{"b":1}}').a, Object);
  own('json-reviver-holder', (function () { var h; JSON.parse('1', function (k, v) { h = this; return v; }); return h; })(), Object);
  own('from-entries', O.fromEntries([['a', 1]]), Object);
  own('descriptor', O.getOwnPropertyDescriptor({ a: 1 }, 'a'), Object);
  own('descriptors', O.getOwnPropertyDescriptors({ a: 1 }), Object);
  own('descriptors-inner', O.getOwnPropertyDescriptors({ a: 1 }).a, Object);
  own('reflect-descriptor', Reflect.getOwnPropertyDescriptor({ a: 1 }, 'a'), Object);
  own('object-rest', (function () { var { a, ...r } = { a: 1, b: 2 }; return r; })(), Object);
  own('object-spread', (function () { return { ...{ a: 1 } }; })(), Object);
  own('arguments', (function () { return arguments; })(1), Object);
  own('arguments-strict', (function () { 'use strict'; return arguments; })(1), Object);
  own('function-prototype-object', (function () { }).prototype, Object);
  own('object-create', O.create(OP), Object); own('new-object', new O(), Object); own('object-call', O(), Object);
  if (typeof O.groupBy === 'function') { n++; var g = O.groupBy([1, 2], function (x) { return 'k'; }); if (gp(g) !== null) fails.push('groupBy-proto'); own('groupBy-array', g.k, Array); own('map-groupBy', Map.groupBy([1], function () { return 1; }), Map); own('map-groupBy-array', Map.groupBy([1], function () { return 1; }).get(1), Array); }
  // wrappers, functions, errors, promises, buffers
  own('wrap-number', O(1), Number); own('wrap-string', O('s'), String); own('wrap-boolean', O(true), Boolean); own('wrap-symbol', O(Symbol()), Symbol); own('wrap-bigint', O(1n), BigInt);
  own('this-wrap', (function () { return this; }).call(1), Number);
  own('bound', (function () { }).bind(null), Function); own('new-function', new Function('return 1'), Function); own('function-call', Function('return 1'), Function);
  own('arrow', function () { return function () { }; }(), Function);
  own('class', class A { }, Function); own('method', ({ m() { } }).m, Function); own('getter', O.getOwnPropertyDescriptor({ get a() { return 1; } }, 'a').get, Function);
  is('generator-function', function* () { }, gp(function* () { }).constructor.prototype);
  var GF = function* () { }, GP = gp(GF).prototype, IP = gp(gp([][Symbol.iterator]()));
  is('generator-object', GF(), GF.prototype); is('generator-function-prototype', GF.prototype, GP); is('generator-prototype', GP, IP); is('iterator-prototype', IP, OP);
  is('map-iterator-chain', gp(new Map().entries()), IP); is('set-iterator-chain', gp(new Set().values()), IP); is('string-iterator-chain', gp(''[Symbol.iterator]()), IP); is('regexp-string-iterator-chain', gp(''.matchAll(/a/g)), IP);
  var AGF = async function* () { }; is('asyncgen-object', AGF(), AGF.prototype); is('asyncgen-function-prototype', AGF.prototype, gp(AGF).prototype);
  is('async-function', async function () { }, gp(async function () { }).constructor.prototype);
  own('regexp-literal', /a/, RegExp); own('regexp-ctor', RegExp('a'), RegExp); own('regexp-species', 'ab'.split(/b/), Array);
  own('date', new Date(0), Date); own('map-new', new Map(), Map); own('set-new', new Set(), Set); own('weakmap', new WeakMap(), WeakMap);
  own('promise-resolve', Promise.resolve(1), Promise); own('promise-then', Promise.resolve(1).then(), Promise); own('promise-all', Promise.all([]), Promise);
  own('async-result', (async function () { })(), Promise); own('async-arrow-result', (async () => 1)(), Promise);
  own('asyncgen-next', (async function* () { })().next(), Promise);
  own('dynamic-promise-finally', Promise.resolve().finally(function () { }), Promise);
  own('typedarray-sub', new Uint8Array(4).subarray(1), Uint8Array); own('typedarray-map', new Uint8Array(2).map(function (x) { return x; }), Uint8Array);
  own('typedarray-buffer', new Uint8Array(2).buffer, ArrayBuffer); own('buffer-slice', new ArrayBuffer(4).slice(1), ArrayBuffer); own('typedarray-of', Int16Array.of(1), Int16Array);
  own('dataview', new DataView(new ArrayBuffer(2)), DataView);
  own('error-new', new Error('x'), Error); own('error-call', TypeError('x'), TypeError); own('aggregate-errors', new AggregateError([1]).errors, Array);
  thrown('throw-null-member', function () { null.x; }, TypeError);
  thrown('throw-undefined-call', function () { undefined(); }, TypeError);
  thrown('throw-reference', function () { return notDefinedAnywhere__; }, ReferenceError);
  thrown('throw-range', function () { new Array(-1); }, RangeError);
  thrown('throw-range-tofixed', function () { (1).toFixed(1000); }, RangeError);
  thrown('throw-syntax-eval', function () { eval('('); }, SyntaxError);
  thrown('throw-syntax-regexp', function () { new RegExp('('); }, SyntaxError);
  thrown('throw-syntax-json', function () { JSON.parse('{'); }, SyntaxError);
  thrown('throw-uri', function () { decodeURIComponent('%'); }, URIError);
  thrown('throw-const-assign', function () { const c = 1; c = 2; }, TypeError);
  thrown('throw-tdz', function () { t; let t; }, ReferenceError);
  thrown('throw-not-iterable', function () { var [a] = 1; }, TypeError);
  thrown('throw-proxy-revoked', function () { var r = Proxy.revocable({}, {}); r.revoke(); r.proxy.x; }, TypeError);
  thrown('throw-bigint-mix', function () { return 1n + 1; }, TypeError);
  thrown('throw-class-call', function () { (class { })(); }, TypeError);
  thrown('throw-super-twice', function () { new (class extends Object { constructor() { super(); super(); } })(); }, ReferenceError);
  own('proxy-revocable-result', Proxy.revocable({}, {}), Object);
  own('eval-object', eval('({})'), Object); own('eval-array', (0, eval)('[]'), Array);
  own('symbol-for-wrapper', O(Symbol.for('census')), Symbol);
  own('string-raw-substitution', O(String.raw`a`), String);
  own('weakref-deref', (function () { var t = {}; return new WeakRef(t).deref(); })(), Object);
  print(fails.length ? 'census FAIL ' + fails.join(',') : 'census ok ' + n);
  // asynchronous part: objects the promise machinery and async generators create
  var afails = [], an = 0;
  function ais(name, obj, proto) { an++; if (gp(obj) !== proto) afails.push(name); }
  var jobs = [];
  jobs.push((async function* () { yield 1; })().next().then(function (r) { ais('iterres-asyncgen', r, OP); }));
  jobs.push((async function* () { })().return(1).then(function (r) { ais('iterres-asyncgen-return', r, OP); }));
  jobs.push((async function () { for await (var x of [1]) { } var it = [Promise.resolve(1)][Symbol.iterator](); })());
  jobs.push(Promise.allSettled([1, Promise.reject(2)]).then(function (r) { ais('allSettled-array', r, AP); ais('allSettled-fulfilled', r[0], OP); ais('allSettled-rejected', r[1], OP); }));
  jobs.push(Promise.all([1]).then(function (r) { ais('all-array', r, AP); }));
  jobs.push(Promise.any([Promise.reject(1)]).then(null, function (e) { ais('any-aggregate', e, AggregateError.prototype); ais('any-errors', e.errors, AP); }));
  jobs.push((async function () { null.x; })().then(null, function (e) { ais('async-throw', e, TypeError.prototype); }));
  jobs.push(Promise.resolve().then(function () { undefined.y; }).then(null, function (e) { ais('job-throw', e, TypeError.prototype); }));
  jobs.push(new Promise(function (r) { r(jobs); }).then(function (v) { ais('resolve-self-array', v, AP); }));
  var cyc = Promise.resolve().then(function () { return cyc; }); jobs.push(cyc.then(null, function (e) { ais('promise-cycle-error', e, TypeError.prototype); }));
  if (typeof Array.fromAsync === 'function') jobs.push(Array.fromAsync([1]).then(function (r) { ais('fromAsync', r, AP); }));
  Promise.all(jobs).then(function () { print(afails.length ? 'census-async FAIL ' + afails.join(',') : 'census-async ok ' + an); }, function (e) { print('census-async FAIL rejected ' + e); });
})();
