//! C09 scenario executor: drives the real `boa_gc` with an explicit operation history,
//! collections injected at chosen allocation points (hook H1), and checks every observable
//! against an executable reachability model after every collection.
//!
//! Depends on `boa_gc` only, so the same code runs natively and under Miri.
//! The executor is tolerant: an operation whose operands do not exist in the current state is
//! skipped, so generators and shrinkers may produce or delete operations freely.

use boa_gc::{Ephemeron, Finalize, Gc, GcRefCell, Trace, WeakGc, WeakMap};
use std::cell::{Cell, RefCell};
use std::collections::BTreeSet;

const MAGIC: u64 = 0x5AFE_C0DE_0000_0000;
const DEAD: u64 = 0xDEAD_DEAD_DEAD_DEAD;

#[derive(Clone, Copy, Debug, PartialEq, Eq)]
pub struct Op {
    pub code: u8,
    pub a: u32,
    pub b: u32,
    pub c: u32,
}

pub mod code {
    pub const ALLOC: u8 = 0; // a = finalizer mode, b,c = initial edge targets (handle slots, NONE to skip)
    pub const LINK: u8 = 1; // a = from handle slot, b = to handle slot
    pub const UNLINK: u8 = 2; // a = from handle slot, b = edge index
    pub const CLONE: u8 = 3; // a = handle slot
    pub const DROP: u8 = 4; // a = handle slot
    pub const LOAD: u8 = 5; // a = from handle slot, b = edge index: clone the edge into a new handle
    pub const WEAK: u8 = 6; // a = target handle slot, b = holder handle slot or NONE (simulator holds it)
    pub const EPH: u8 = 7; // a = key handle slot, b = value handle slot, c = holder or NONE
    pub const UPGRADE: u8 = 8; // a = simulator weak slot
    pub const READ_EPH: u8 = 9; // a = simulator ephemeron slot
    pub const DROP_WEAK: u8 = 10; // a = simulator weak slot
    pub const DROP_EPH: u8 = 11; // a = simulator ephemeron slot
    pub const MAP_NEW: u8 = 12; // a = holder handle slot or NONE
    pub const MAP_INSERT: u8 = 13; // a = map id, b = key handle slot, c = value handle slot
    pub const MAP_REMOVE: u8 = 14; // a = map id, b = key handle slot
    pub const MAP_GET: u8 = 15; // a = map id, b = key handle slot
    pub const MAP_DROP: u8 = 16; // a = map id (simulator held only)
    pub const COLLECT: u8 = 17;
    pub const CYCLIC: u8 = 18; // Gc::new_cyclic: node holding a weak to itself; a = finalizer mode
    pub const ALLOC_IN_BORROW: u8 = 19; // a = holder handle slot: allocate while holder.strong is mutably borrowed
    pub const NODE_UPGRADE: u8 = 20; // a = holder handle slot, b = stored weak index: upgrade a weak stored in a node
    pub const NODE_READ_EPH: u8 = 21; // a = holder handle slot, b = stored ephemeron index
    pub const SET_MODE: u8 = 22; // a = handle slot, b = finalizer mode
    pub const DROP_RESURRECTED: u8 = 23; // drop everything finalizers resurrected so far
    pub const COUNT: u8 = 24;
}
pub const NONE: u32 = u32::MAX;

/// finalizer modes
pub mod mode {
    pub const PLAIN: u8 = 0;
    pub const RESURRECT_SELF: u8 = 1; // via a weak to itself (only nodes made by CYCLIC have one)
    pub const RESURRECT_CHILD: u8 = 2; // clone strong[0] into the resurrection list
    pub const CLEAR_EDGES: u8 = 3; // drop its own strong handles inside the finalizer
    pub const COUNT: u8 = 4;
}

thread_local! {
    static DROPS: RefCell<Vec<u32>> = const { RefCell::new(Vec::new()) };
    static FINALIZED: RefCell<Vec<u32>> = const { RefCell::new(Vec::new()) };
    static RESURRECTED: RefCell<Vec<Gc<Node>>> = const { RefCell::new(Vec::new()) };
    static ARM: Cell<Option<u32>> = const { Cell::new(None) };
    static FIRED: Cell<u32> = const { Cell::new(0) };
}

struct DropProbe {
    id: u32,
    canary: Cell<u64>,
}
impl Drop for DropProbe {
    fn drop(&mut self) {
        self.canary.set(DEAD);
        DROPS.with(|d| {
            let mut d = d.borrow_mut();
            let i = self.id as usize;
            if d.len() <= i {
                d.resize(i + 1, 0);
            }
            d[i] += 1;
        });
    }
}

type Eph = Ephemeron<Node, Gc<Node>>;
type Map = WeakMap<Node, Gc<Node>>;

#[derive(Trace)]
struct Node {
    #[unsafe_ignore_trace]
    probe: DropProbe,
    #[unsafe_ignore_trace]
    mode: Cell<u8>,
    strong: GcRefCell<Vec<Gc<Node>>>,
    weak: GcRefCell<Vec<WeakGc<Node>>>,
    eph: GcRefCell<Vec<Eph>>,
    maps: GcRefCell<Vec<Map>>,
}

impl Node {
    fn new(id: u32, mode: u8) -> Self {
        Node {
            probe: DropProbe { id, canary: Cell::new(MAGIC ^ u64::from(id)) },
            mode: Cell::new(mode),
            strong: GcRefCell::new(Vec::new()),
            weak: GcRefCell::new(Vec::new()),
            eph: GcRefCell::new(Vec::new()),
            maps: GcRefCell::new(Vec::new()),
        }
    }
    fn canary_ok(&self) -> bool {
        self.probe.canary.get() == MAGIC ^ u64::from(self.probe.id)
    }
}

impl Finalize for Node {
    fn finalize(&self) {
        FINALIZED.with(|d| {
            let mut d = d.borrow_mut();
            let i = self.probe.id as usize;
            if d.len() <= i {
                d.resize(i + 1, 0);
            }
            d[i] += 1;
        });
        match self.mode.get() {
            mode::RESURRECT_SELF => {
                // the first stored weak of a CYCLIC node points to the node itself
                let me = self.weak.try_borrow().ok().and_then(|w| w.first().and_then(WeakGc::upgrade));
                if let Some(me) = me {
                    RESURRECTED.with(|r| r.borrow_mut().push(me));
                }
            }
            mode::RESURRECT_CHILD => {
                let c = self.strong.try_borrow().ok().and_then(|s| s.first().cloned());
                if let Some(c) = c {
                    RESURRECTED.with(|r| r.borrow_mut().push(c));
                }
            }
            mode::CLEAR_EDGES => {
                if let Ok(mut s) = self.strong.try_borrow_mut() {
                    s.clear();
                }
            }
            _ => {}
        }
    }
}

// ---------------------------------------------------------------------------------------------
// model

#[derive(Clone, Debug, Default)]
struct MNode {
    strong: Vec<u32>,
    weak: Vec<u32>,
    eph: Vec<(u32, u32)>,
    maps: Vec<u32>,
    mode: u8,
    freed: bool,
    finalized: u32,
    self_weak: bool,
}

#[derive(Clone, Debug)]
struct MMap {
    entries: Vec<(u32, u32)>,
    /// NONE = held by the simulator; otherwise the node that stores it
    holder: u32,
    dropped: bool,
}

#[derive(Debug, Clone, Default)]
pub struct Outcome {
    pub violations: Vec<(String, String)>,
    pub ops_executed: u64,
    pub ops_skipped: u64,
    pub collections: u64,
    pub injected_fired: u64,
    pub in_borrow_collections: u64,
    pub nodes: u64,
    pub freed: u64,
    pub resurrections: u64,
    pub tainted: bool,
    pub predicted_resurrection: bool,
    pub fixpoint_rounds_max: u64,
    pub weak_cleared_seen: u64,
    pub eph_cleared_seen: u64,
    pub map_entries_cleared: u64,
    pub log_hash: u64,
}

struct Sim {
    nodes: Vec<MNode>,
    maps: Vec<MMap>,
    handles: Vec<(u32, Gc<Node>)>,
    weaks: Vec<(u32, WeakGc<Node>)>,
    ephs: Vec<(u32, u32, Eph)>,
    sim_maps: Vec<(u32, Map)>,
    /// model of the resurrection list (node ids, with multiplicity)
    resurrected: Vec<u32>,
    out: Outcome,
    last_collections: usize,
    tainted: bool,
    /// nodes kept alive by temporaries of the operation in progress
    extra_roots: Vec<u32>,
    /// strong boxes created by the operation in progress that the model does not know yet
    pending_strong: usize,
    taint_note: String,
    execute_resurrection: bool,
}

fn fnv_add(h: &mut u64, v: u64) {
    *h = (h.rotate_left(5) ^ v).wrapping_mul(0x0100_0000_01b3);
}

impl Sim {
    fn violate(&mut self, class: &str, detail: String) {
        let class = class.to_string();
        if self.out.violations.len() < 8 {
            self.out.violations.push((class, detail));
        }
    }

    fn slot(&self, s: u32) -> Option<usize> {
        if self.handles.is_empty() || s == NONE { None } else { Some(s as usize % self.handles.len()) }
    }

    fn map_real<R>(&mut self, id: u32, f: impl FnOnce(&mut Map) -> R) -> Option<R> {
        let (holder, dropped) = (self.maps[id as usize].holder, self.maps[id as usize].dropped);
        if dropped {
            return None;
        }
        if holder == NONE {
            let idx = self.sim_maps.iter().position(|(i, _)| *i == id)?;
            Some(f(&mut self.sim_maps[idx].1))
        } else {
            let h = self.handles.iter().find(|(n, _)| *n == holder)?.1.clone();
            let idx = self.nodes[holder as usize].maps.iter().position(|x| *x == id)?;
            let mut maps = h.maps.borrow_mut();
            Some(f(&mut maps[idx]))
        }
    }

    /// reachable set of the model, given extra roots
    fn reachable(&mut self, extra: &[u32]) -> BTreeSet<u32> {
        let mut reach: BTreeSet<u32> = BTreeSet::new();
        let mut work: Vec<u32> = self.handles.iter().map(|(i, _)| *i).collect();
        work.extend(self.resurrected.iter().copied());
        work.extend(extra.iter().copied());
        let mut rounds = 0u64;
        loop {
            while let Some(n) = work.pop() {
                if reach.insert(n) {
                    work.extend(self.nodes[n as usize].strong.iter().copied());
                }
            }
            rounds += 1;
            // ephemeron-like edges: value is reachable iff holder and key are
            let mut add = vec![];
            for (k, v, _) in &self.ephs {
                if reach.contains(k) && !reach.contains(v) {
                    add.push(*v);
                }
            }
            for n in &reach {
                for (k, v) in &self.nodes[*n as usize].eph {
                    if reach.contains(k) && !reach.contains(v) {
                        add.push(*v);
                    }
                }
            }
            for m in &self.maps {
                if m.dropped || (m.holder != NONE && !reach.contains(&m.holder)) {
                    continue;
                }
                for (k, v) in &m.entries {
                    if reach.contains(k) && !reach.contains(v) {
                        add.push(*v);
                    }
                }
            }
            if add.is_empty() {
                break;
            }
            work = add;
        }
        self.out.fixpoint_rounds_max = self.out.fixpoint_rounds_max.max(rounds);
        reach
    }

    /// Would a collection in the current model state run a finalizer that brings an object back?
    fn would_resurrect(&mut self) -> Option<String> {
        let reach = self.reachable(&[]);
        for n in 0..self.nodes.len() as u32 {
            let m = &self.nodes[n as usize];
            if m.freed || reach.contains(&n) {
                continue;
            }
            let fires = match m.mode {
                mode::RESURRECT_SELF => m.self_weak,
                mode::RESURRECT_CHILD => !m.strong.is_empty(),
                _ => false,
            };
            if fires {
                return Some(format!(
                    "node {n} is unreachable and its finalizer (mode {}) would make an object reachable again",
                    m.mode
                ));
            }
        }
        None
    }

    /// Model of one collection + comparison with what really happened.
    fn after_collection(&mut self, what: &str) {
        self.out.collections += 1;
        let unfreed: Vec<u32> = (0..self.nodes.len() as u32).filter(|n| !self.nodes[*n as usize].freed).collect();
        let extra = self.extra_roots.clone();
        let reach1 = self.reachable(&extra);
        let dead1: Vec<u32> = unfreed.iter().copied().filter(|n| !reach1.contains(n)).collect();
        // finalizers of the unreachable set, in heap (= allocation) order
        let mut resurrect_fired = false;
        for n in &dead1 {
            self.nodes[*n as usize].finalized += 1;
            match self.nodes[*n as usize].mode {
                mode::RESURRECT_SELF if self.nodes[*n as usize].self_weak => {
                    self.resurrected.push(*n);
                    resurrect_fired = true;
                }
                mode::RESURRECT_CHILD => {
                    if let Some(c) = self.nodes[*n as usize].strong.first().copied() {
                        self.resurrected.push(c);
                        resurrect_fired = true;
                    }
                }
                mode::CLEAR_EDGES => self.nodes[*n as usize].strong.clear(),
                _ => {}
            }
        }
        let reach2 = if resurrect_fired { self.reachable(&extra) } else { reach1 };
        let mut back = 0u64;
        for n in &dead1 {
            if reach2.contains(n) {
                back += 1;
                let m = &self.nodes[*n as usize];
                // The second mark phase judges rootedness with the handle counts taken before
                // the finalizers ran, and the handles held by every finalized object have
                // already been released: an object that comes back is either freed anyway or
                // left with reference counts that are too low.
                if !self.tainted {
                    self.taint_note = format!(
                        "{what}: node {n} was found unreachable, finalized (it holds {} strong, {} weak, {} ephemeron, {} weak map handles) and made reachable again by a finalizer",
                        m.strong.len(), m.weak.len(), m.eph.len(), m.maps.len()
                    );
                }
                // (with SIMGC_EXECUTE_RESURRECTION the history goes on and every check stays exact:
                // that is how the recorded finding is demonstrated)
                self.tainted = !self.execute_resurrection;
            }
        }
        self.out.resurrections += back;
        if self.tainted {
            return;
        }
        // expected frees
        for n in &dead1 {
            if !reach2.contains(n) {
                self.nodes[*n as usize].freed = true;
                self.out.freed += 1;
            }
        }
        // maps die with their holder; live maps lose entries whose key died
        for i in 0..self.maps.len() {
            let h = self.maps[i].holder;
            if !self.maps[i].dropped && h != NONE && self.nodes[h as usize].freed {
                self.maps[i].dropped = true;
            }
            if !self.maps[i].dropped {
                let before = self.maps[i].entries.len();
                let nodes = &self.nodes;
                self.maps[i].entries.retain(|(k, _)| !nodes[*k as usize].freed);
                self.out.map_entries_cleared += (before - self.maps[i].entries.len()) as u64;
            }
        }
        // compare with reality
        let drops = DROPS.with(|d| d.borrow().clone());
        let fins = FINALIZED.with(|d| d.borrow().clone());
        for n in 0..self.nodes.len() {
            let d = drops.get(n).copied().unwrap_or(0);
            let f = fins.get(n).copied().unwrap_or(0);
            let m = self.nodes[n].clone();
            if d > 1 {
                self.violate("double-free", format!("{what}: node {n} dropped {d} times"));
            }
            if m.freed && d == 0 {
                self.violate("not-freed", format!("{what}: node {n} is unreachable but was not freed by the collection"));
            }
            if !m.freed && d > 0 {
                self.violate("freed-while-reachable", format!("{what}: node {n} was freed but is reachable from a live handle"));
            }
            if f != m.finalized {
                self.violate("finalize-count", format!("{what}: node {n} finalized {f} times, model says {}", m.finalized));
            }
        }
        // the real resurrection list must hold exactly what the model says
        let real_res: Vec<u32> = RESURRECTED.with(|r| r.borrow().iter().map(|g| g.probe.id).collect());
        if real_res != self.resurrected {
            self.violate("resurrection-list", format!("{what}: real {real_res:?} vs model {:?}", self.resurrected));
        }
        self.check_live_handles(what);
        // strong boxes = unfreed nodes + live weak map cells
        let st = boa_gc::verif::stats();
        let live_nodes = self.nodes.iter().filter(|m| !m.freed).count();
        let live_maps = self.maps.iter().filter(|m| !m.dropped).count();
        if st.strongs != live_nodes + live_maps + self.pending_strong {
            self.violate(
                "box-count",
                format!("{what}: {} strong boxes in the heap, model: {live_nodes} nodes + {live_maps} weak map cells", st.strongs),
            );
        }
        self.last_collections = st.collections;
        fnv_add(&mut self.out.log_hash, st.strongs as u64);
        fnv_add(&mut self.out.log_hash, st.ephemerons as u64);
        fnv_add(&mut self.out.log_hash, self.out.freed);
    }

    fn check_live_handles(&mut self, what: &str) {
        let mut bad = vec![];
        for (id, g) in &self.handles {
            if !g.canary_ok() || g.probe.id != *id {
                bad.push(*id);
            }
        }
        RESURRECTED.with(|r| {
            for g in r.borrow().iter() {
                if !g.canary_ok() {
                    bad.push(g.probe.id);
                }
            }
        });
        for id in bad {
            self.violate("canary", format!("{what}: node {id} read through a live handle is corrupt"));
        }
    }

    fn collected_since(&self) -> bool {
        boa_gc::verif::stats().collections != self.last_collections
    }

    fn new_node(&mut self, mode: u8) -> u32 {
        self.nodes.push(MNode { mode, ..MNode::default() });
        self.out.nodes += 1;
        (self.nodes.len() - 1) as u32
    }

    fn step(&mut self, i: usize, op: Op, arm: Option<u32>) {
        use code::*;
        let what = format!("op {i} {op:?}");
        if (arm.is_some() || op.code == COLLECT) && !self.execute_resurrection {
            if let Some(note) = self.would_resurrect() {
                self.taint_note = format!("{what}: {note}; not executed (see the recorded finding: the collector frees resurrected objects or leaves them with released handles)");
                self.tainted = true;
                self.out.predicted_resurrection = true;
                return;
            }
        }
        ARM.with(|a| a.set(arm));
        let mut executed = true;
        match op.code {
            ALLOC | CYCLIC => {
                let mode = (op.a % u32::from(mode::COUNT)) as u8;
                let mode = if op.code == ALLOC && mode == mode::RESURRECT_SELF { mode::PLAIN } else { mode };
                // edges are cloned from live handles before the allocation (they are roots meanwhile)
                let mut edges = vec![];
                if op.code == ALLOC {
                    for s in [op.b, op.c] {
                        if let Some(s) = self.slot(s) {
                            edges.push(self.handles[s].clone());
                        }
                    }
                }
                let id = self.nodes.len() as u32;
                let node = Node::new(id, mode);
                *node.strong.borrow_mut() = edges.iter().map(|(_, g)| g.clone()).collect();
                let gc = if op.code == CYCLIC {
                    Gc::new_cyclic(|w| {
                        node.weak.borrow_mut().push(w.clone());
                        node
                    })
                } else {
                    Gc::new(node)
                };
                // the collection (if any) ran before the new node existed
                if self.collected_since() {
                    self.pending_strong = 1;
                    self.after_collection(&what);
                    self.pending_strong = 0;
                }
                let id2 = self.new_node(mode);
                debug_assert_eq!(id, id2);
                self.nodes[id as usize].strong = edges.iter().map(|(n, _)| *n).collect();
                if op.code == CYCLIC {
                    self.nodes[id as usize].weak.push(id);
                    self.nodes[id as usize].self_weak = true;
                }
                self.handles.push((id, gc));
            }
            ALLOC_IN_BORROW => match self.slot(op.a) {
                Some(s) => {
                    let (hid, h) = self.handles[s].clone();
                    let id = self.nodes.len() as u32;
                    let fired_before = FIRED.with(Cell::get);
                    let gc = {
                        let mut b = h.strong.borrow_mut();
                        let gc = Gc::new(Node::new(id, mode::PLAIN));
                        b.push(gc.clone());
                        gc
                    };
                    if FIRED.with(Cell::get) != fired_before {
                        self.out.in_borrow_collections += 1;
                    }
                    if self.collected_since() {
                        self.pending_strong = 1;
                        self.after_collection(&what);
                        self.pending_strong = 0;
                    }
                    self.new_node(mode::PLAIN);
                    self.nodes[hid as usize].strong.push(id);
                    self.handles.push((id, gc));
                }
                None => executed = false,
            },
            LINK => match (self.slot(op.a), self.slot(op.b)) {
                (Some(a), Some(b)) => {
                    let (ia, ga) = self.handles[a].clone();
                    let (ib, gb) = self.handles[b].clone();
                    ga.strong.borrow_mut().push(gb);
                    self.nodes[ia as usize].strong.push(ib);
                }
                _ => executed = false,
            },
            UNLINK => match self.slot(op.a) {
                Some(a) if !self.nodes[self.handles[a].0 as usize].strong.is_empty() => {
                    let (ia, ga) = self.handles[a].clone();
                    let idx = op.b as usize % self.nodes[ia as usize].strong.len();
                    let removed = ga.strong.borrow_mut().remove(idx);
                    drop(removed);
                    self.nodes[ia as usize].strong.remove(idx);
                }
                _ => executed = false,
            },
            CLONE => match self.slot(op.a) {
                Some(a) => {
                    let h = self.handles[a].clone();
                    self.handles.push(h);
                }
                None => executed = false,
            },
            DROP => match self.slot(op.a) {
                Some(a) => {
                    let h = self.handles.remove(a);
                    drop(h);
                }
                None => executed = false,
            },
            LOAD => match self.slot(op.a) {
                Some(a) if !self.nodes[self.handles[a].0 as usize].strong.is_empty() => {
                    let (ia, ga) = self.handles[a].clone();
                    let idx = op.b as usize % self.nodes[ia as usize].strong.len();
                    let g = ga.strong.borrow()[idx].clone();
                    let id = self.nodes[ia as usize].strong[idx];
                    if g.probe.id != id || !g.canary_ok() {
                        self.violate("canary", format!("{what}: edge {ia}->{id} leads to a corrupt node"));
                    }
                    self.handles.push((id, g));
                }
                _ => executed = false,
            },
            WEAK => match self.slot(op.a) {
                Some(a) => {
                    let (it, gt) = self.handles[a].clone();
                    let holder = self.slot(op.b).filter(|_| op.b != NONE);
                    let w = WeakGc::new(&gt);
                    if self.collected_since() {
                        self.after_collection(&what);
                    }
                    match holder {
                        Some(h) => {
                            let (ih, gh) = self.handles[h].clone();
                            gh.weak.borrow_mut().push(w);
                            self.nodes[ih as usize].weak.push(it);
                        }
                        None => self.weaks.push((it, w)),
                    }
                }
                None => executed = false,
            },
            EPH => match (self.slot(op.a), self.slot(op.b)) {
                (Some(k), Some(v)) => {
                    let (ik, gk) = self.handles[k].clone();
                    let (iv, gv) = self.handles[v].clone();
                    let holder = self.slot(op.c).filter(|_| op.c != NONE);
                    let e = Ephemeron::new(&gk, gv);
                    if self.collected_since() {
                        self.after_collection(&what);
                    }
                    match holder {
                        Some(h) => {
                            let (ih, gh) = self.handles[h].clone();
                            gh.eph.borrow_mut().push(e);
                            self.nodes[ih as usize].eph.push((ik, iv));
                        }
                        None => self.ephs.push((ik, iv, e)),
                    }
                }
                _ => executed = false,
            },
            UPGRADE if !self.weaks.is_empty() => {
                let s = op.a as usize % self.weaks.len();
                let target = self.weaks[s].0;
                let up = self.weaks[s].1.upgrade();
                let expect = !self.nodes[target as usize].freed;
                if up.is_none() {
                    self.out.weak_cleared_seen += 1;
                }
                if up.is_some() != expect && !self.tainted {
                    self.violate(
                        "weak-upgrade",
                        format!("{what}: upgrade of weak to node {target} gave {:?}, target freed = {}", up.is_some(), !expect),
                    );
                }
                if let Some(g) = up {
                    if !g.canary_ok() || g.probe.id != target {
                        self.violate("canary", format!("{what}: upgraded weak to {target} is corrupt"));
                    }
                    self.handles.push((target, g));
                }
            }
            NODE_UPGRADE => match self.slot(op.a) {
                Some(a) if !self.nodes[self.handles[a].0 as usize].weak.is_empty() => {
                    let (ia, ga) = self.handles[a].clone();
                    let idx = op.b as usize % self.nodes[ia as usize].weak.len();
                    let target = self.nodes[ia as usize].weak[idx];
                    let up = ga.weak.borrow()[idx].upgrade();
                    let expect = !self.nodes[target as usize].freed;
                    if up.is_some() != expect && !self.tainted {
                        self.violate(
                            "weak-upgrade",
                            format!("{what}: upgrade of stored weak {ia}~>{target} gave {:?}, target freed = {}", up.is_some(), !expect),
                        );
                    }
                    if let Some(g) = up {
                        if !g.canary_ok() || g.probe.id != target {
                            self.violate("canary", format!("{what}: upgraded weak to {target} is corrupt"));
                        }
                        self.handles.push((target, g));
                    }
                }
                _ => executed = false,
            },
            READ_EPH if !self.ephs.is_empty() => {
                let s = op.a as usize % self.ephs.len();
                let (k, v, _) = (self.ephs[s].0, self.ephs[s].1, ());
                let got = self.ephs[s].2.value().map(|r| (r.probe.id, r.canary_ok()));
                let expect = !self.nodes[k as usize].freed;
                if got.is_none() {
                    self.out.eph_cleared_seen += 1;
                }
                if got.is_some() != expect {
                    self.violate("ephemeron-value", format!("{what}: value present = {:?}, key {k} freed = {}", got.is_some(), !expect));
                }
                if let Some((id, ok)) = got {
                    if id != v || !ok {
                        self.violate("canary", format!("{what}: ephemeron value should be node {v}, read {id} ok={ok}"));
                    }
                }
            }
            NODE_READ_EPH => match self.slot(op.a) {
                Some(a) if !self.nodes[self.handles[a].0 as usize].eph.is_empty() => {
                    let (ia, ga) = self.handles[a].clone();
                    let idx = op.b as usize % self.nodes[ia as usize].eph.len();
                    let (k, v) = self.nodes[ia as usize].eph[idx];
                    let got = ga.eph.borrow()[idx].value().map(|r| (r.probe.id, r.canary_ok()));
                    let expect = !self.nodes[k as usize].freed;
                    if got.is_some() != expect {
                        self.violate("ephemeron-value", format!("{what}: value present = {:?}, key {k} freed = {}", got.is_some(), !expect));
                    }
                    if let Some((id, ok)) = got {
                        if id != v || !ok {
                            self.violate("canary", format!("{what}: ephemeron value should be node {v}, read {id} ok={ok}"));
                        }
                    }
                }
                _ => executed = false,
            },
            DROP_WEAK if !self.weaks.is_empty() => {
                let s = op.a as usize % self.weaks.len();
                drop(self.weaks.remove(s));
            }
            DROP_EPH if !self.ephs.is_empty() => {
                let s = op.a as usize % self.ephs.len();
                drop(self.ephs.remove(s));
            }
            MAP_NEW => {
                let holder = self.slot(op.a).filter(|_| op.a != NONE);
                let m: Map = WeakMap::new();
                if self.collected_since() {
                    self.pending_strong = 1;
                    self.after_collection(&what);
                    self.pending_strong = 0;
                }
                let id = self.maps.len() as u32;
                match holder {
                    Some(h) => {
                        let (ih, gh) = self.handles[h].clone();
                        gh.maps.borrow_mut().push(m);
                        self.nodes[ih as usize].maps.push(id);
                        self.maps.push(MMap { entries: vec![], holder: ih, dropped: false });
                    }
                    None => {
                        self.sim_maps.push((id, m));
                        self.maps.push(MMap { entries: vec![], holder: NONE, dropped: false });
                    }
                }
            }
            MAP_INSERT | MAP_REMOVE | MAP_GET if !self.maps.is_empty() => {
                let id = op.a % self.maps.len() as u32;
                match (self.slot(op.b), self.slot(op.c)) {
                    (Some(k), v) => {
                        let (ik, gk) = self.handles[k].clone();
                        match op.code {
                            MAP_INSERT => {
                                let Some(v) = v else {
                                    ARM.with(|a| a.set(None));
                                    self.out.ops_skipped += 1;
                                    return;
                                };
                                let (iv, gv) = self.handles[v].clone();
                                let fired_before = FIRED.with(Cell::get);
                                let done = self.map_real(id, |m| m.insert(&gk, gv)).is_some();
                                if FIRED.with(Cell::get) != fired_before {
                                    self.out.in_borrow_collections += 1;
                                }
                                if done {
                                    // a collection inside insert ran with the old entry already removed
                                    // ... but still alive in a temporary until insert returns
                                    let e = &mut self.maps[id as usize].entries;
                                    let old: Vec<u32> = e.iter().filter(|(k2, _)| *k2 == ik).map(|(_, v)| *v).collect();
                                    e.retain(|(k2, _)| *k2 != ik);
                                    if self.collected_since() {
                                        self.extra_roots = old;
                                        self.after_collection(&what);
                                        self.extra_roots.clear();
                                    }
                                    self.maps[id as usize].entries.push((ik, iv));
                                } else {
                                    executed = false;
                                }
                            }
                            MAP_REMOVE => {
                                let r = self.map_real(id, |m| m.remove(&gk));
                                match r {
                                    Some(was) => {
                                        let e = &mut self.maps[id as usize].entries;
                                        let had = e.iter().any(|(k2, _)| *k2 == ik);
                                        e.retain(|(k2, _)| *k2 != ik);
                                        if was != had {
                                            self.violate("weakmap-remove", format!("{what}: remove returned {was}, model had entry = {had}"));
                                        }
                                    }
                                    None => executed = false,
                                }
                            }
                            _ => {
                                let r = self.map_real(id, |m| {
                                    m.get(&gk).map(|e| e.value().map(|v| (v.probe.id, v.canary_ok())))
                                });
                                match r {
                                    Some(got) => {
                                        let want = self.maps[id as usize].entries.iter().find(|(k2, _)| *k2 == ik).map(|(_, v)| *v);
                                        let got_id = got.and_then(|g| g.map(|(id, _)| id));
                                        if got_id != want {
                                            self.violate("weakmap-get", format!("{what}: get(key {ik}) = {got_id:?}, model {want:?}"));
                                        }
                                        if let Some(Some((_, false))) = got {
                                            self.violate("canary", format!("{what}: weak map value is corrupt"));
                                        }
                                    }
                                    None => executed = false,
                                }
                            }
                        }
                    }
                    _ => executed = false,
                }
            }
            MAP_DROP if !self.sim_maps.is_empty() => {
                let s = op.a as usize % self.sim_maps.len();
                let (id, m) = self.sim_maps.remove(s);
                drop(m);
                // the map cell dies at the next collection; the model treats it as gone now
                // and accounts for the box until then
                self.maps[id as usize].entries.clear();
                self.maps[id as usize].holder = NONE;
                self.maps[id as usize].dropped = true;
            }
            COLLECT => {
                boa_gc::verif::collect_now();
                self.after_collection(&what);
            }
            SET_MODE => match self.slot(op.a) {
                Some(a) => {
                    let (ia, ga) = self.handles[a].clone();
                    let m = (op.b % u32::from(mode::COUNT)) as u8;
                    let m = if m == mode::RESURRECT_SELF && !self.nodes[ia as usize].self_weak { mode::PLAIN } else { m };
                    ga.mode.set(m);
                    self.nodes[ia as usize].mode = m;
                }
                None => executed = false,
            },
            DROP_RESURRECTED => {
                RESURRECTED.with(|r| r.borrow_mut().clear());
                self.resurrected.clear();
            }
            _ => executed = false,
        }
        ARM.with(|a| a.set(None));
        if executed {
            self.out.ops_executed += 1;
        } else {
            self.out.ops_skipped += 1;
        }
        fnv_add(&mut self.out.log_hash, u64::from(op.code) + if executed { 256 } else { 0 });
    }
}

fn leak_tainted(mut sim: Sim) -> Outcome {
    // The collector has released the handles held by an object that a finalizer then
    // resurrected: reference counts are now too low and anything further (even dropping a
    // handle) may underflow a count or free a reachable object. Stop here and leak
    // everything; the caller must not reuse this thread's heap.
    if sim.out.violations.is_empty() {
        let who = sim.taint_note.clone();
        sim.out.violations.push(("finalizer-resurrection".to_string(), who));
    }
    boa_gc::verif::set_policy(None);
    sim.out.injected_fired = u64::from(FIRED.with(Cell::get));
    sim.out.tainted = true;
    let out = sim.out.clone();
    RESURRECTED.with(|r| std::mem::forget(std::mem::take(&mut *r.borrow_mut())));
    std::mem::forget(sim);
    out
}

/// Executes the history. `gc_at` = (operation index, n): collect at the n-th allocation point
/// inside that operation (0 = first). Returns everything observed.
pub fn run(ops: &[Op], gc_at: &[(u32, u32)]) -> Outcome {
    // previous scenarios on this thread must not leak into this one: release what they left
    // behind (a scenario that stopped at a violation skips its teardown), then reset the counters
    ARM.with(|a| a.set(None));
    boa_gc::verif::set_policy(None);
    for _ in 0..4 {
        RESURRECTED.with(|d| d.borrow_mut().clear());
        boa_gc::verif::collect_now();
    }
    DROPS.with(|d| d.borrow_mut().clear());
    FINALIZED.with(|d| d.borrow_mut().clear());
    FIRED.with(|f| f.set(0));
    let base = boa_gc::verif::stats();
    boa_gc::verif::set_policy(Some(Box::new(|_| {
        ARM.with(|a| match a.get() {
            Some(0) => {
                a.set(None);
                FIRED.with(|f| f.set(f.get() + 1));
                true
            }
            Some(n) => {
                a.set(Some(n - 1));
                false
            }
            None => false,
        })
    })));
    let mut sim = Sim {
        nodes: vec![],
        maps: vec![],
        handles: vec![],
        weaks: vec![],
        ephs: vec![],
        sim_maps: vec![],
        resurrected: vec![],
        out: Outcome::default(),
        last_collections: base.collections,
        tainted: false,
        extra_roots: vec![],
        pending_strong: 0,
        taint_note: String::new(),
        execute_resurrection: std::env::var_os("SIMGC_EXECUTE_RESURRECTION").is_some(),
    };
    if base.strongs != 0 || base.ephemerons != 0 || base.weak_maps != 0 {
        sim.violate("dirty-heap", format!("heap not empty before the scenario: {base:?}"));
    }
    for (i, op) in ops.iter().enumerate() {
        let arm = gc_at.iter().find(|(o, _)| *o as usize == i).map(|(_, n)| *n);
        sim.step(i, *op, arm);
        if !sim.out.violations.is_empty() || sim.tainted {
            break;
        }
    }
    if sim.tainted {
        return leak_tainted(sim);
    }
    // teardown: drop every root, collect; the heap must be empty and every node dropped once
    if sim.out.violations.is_empty() {
        sim.handles.clear();
        sim.weaks.clear();
        sim.ephs.clear();
        for (id, m) in std::mem::take(&mut sim.sim_maps) {
            drop(m);
            sim.maps[id as usize].dropped = true;
            sim.maps[id as usize].holder = NONE;
            sim.maps[id as usize].entries.clear();
        }
        RESURRECTED.with(|r| r.borrow_mut().clear());
        sim.resurrected.clear();
        // resurrecting finalizers may bring nodes back a bounded number of times; disarm them
        // is not possible for unreachable nodes, so collect until the model says nothing is left
        let mut rounds = 0;
        loop {
            if !sim.execute_resurrection {
                if let Some(note) = sim.would_resurrect() {
                    sim.taint_note = format!("teardown: {note}; not executed (see the recorded finding)");
                    sim.tainted = true;
                    sim.out.predicted_resurrection = true;
                    break;
                }
            }
            boa_gc::verif::collect_now();
            sim.after_collection("teardown");
            RESURRECTED.with(|r| r.borrow_mut().clear());
            sim.resurrected.clear();
            rounds += 1;
            if sim.nodes.iter().all(|n| n.freed) || rounds > 64 || !sim.out.violations.is_empty() || sim.tainted {
                break;
            }
        }
        if sim.tainted {
            return leak_tainted(sim);
        }
        // weak boxes and weak-map tracking boxes may lag by design (cleared entries are released
        // after the sweep): two more collections must reach the empty heap
        boa_gc::verif::collect_now();
        boa_gc::verif::collect_now();
        let st = boa_gc::verif::stats();
        if sim.out.violations.is_empty() && (st.strongs != 0 || st.ephemerons != 0 || st.weak_maps != 0) {
            sim.violate("leak", format!("after dropping every root and collecting: {st:?}"));
        }
        let drops = DROPS.with(|d| d.borrow().clone());
        for n in 0..sim.nodes.len() {
            let d = drops.get(n).copied().unwrap_or(0);
            if d != 1 && sim.out.violations.is_empty() {
                sim.violate("drop-count", format!("node {n} dropped {d} times by the end"));
            }
        }
    }
    boa_gc::verif::set_policy(None);
    sim.out.injected_fired = u64::from(FIRED.with(Cell::get));
    sim.out.tainted = sim.tainted;
    sim.out
}

pub fn parse(text: &str) -> (Vec<Op>, Vec<(u32, u32)>) {
    let (ops, gcs) = text.split_once('|').unwrap_or((text, ""));
    let num = |s: &str| -> u32 { if s == "-" { NONE } else { s.parse().unwrap_or(0) } };
    let ops = ops
        .split(';')
        .filter(|s| !s.is_empty())
        .map(|s| {
            let p: Vec<&str> = s.split(',').collect();
            Op { code: num(p[0]) as u8, a: num(p.get(1).unwrap_or(&"0")), b: num(p.get(2).unwrap_or(&"0")), c: num(p.get(3).unwrap_or(&"0")) }
        })
        .collect();
    let gcs = gcs
        .split(';')
        .filter(|s| !s.is_empty())
        .map(|s| {
            let (a, b) = s.split_once(':').unwrap_or((s, "0"));
            (num(a), num(b))
        })
        .collect();
    (ops, gcs)
}

pub fn render(ops: &[Op], gcs: &[(u32, u32)]) -> String {
    let n = |v: u32| if v == NONE { "-".to_string() } else { v.to_string() };
    let o: Vec<String> = ops.iter().map(|o| format!("{},{},{},{}", o.code, n(o.a), n(o.b), n(o.c))).collect();
    let g: Vec<String> = gcs.iter().map(|(a, b)| format!("{a}:{b}")).collect();
    format!("{}|{}", o.join(";"), g.join(";"))
}
