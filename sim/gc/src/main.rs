fn main() { println!("{:?}", boa_gc::verif::stats()); }
