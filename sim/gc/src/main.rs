//! `simgc "<ops>|<gc points>"`: run one C09 scenario (also under Miri). Exit 1 on violation.
fn main() {
    let arg = std::env::args().nth(1).unwrap_or_default();
    let (ops, gcs) = simgc::parse(&arg);
    let out = simgc::run(&ops, &gcs);
    println!(
        "ops={} skipped={} collections={} injected={} nodes={} freed={} resurrections={} tainted={}",
        out.ops_executed, out.ops_skipped, out.collections, out.injected_fired, out.nodes, out.freed, out.resurrections, out.tainted
    );
    for (c, d) in &out.violations {
        println!("VIOLATION-CLASS {c}: {d}");
    }
    if !out.violations.is_empty() {
        std::process::exit(1);
    }
}
