//! `simgc "<ops>|<gc points>" ["<ops>|<gc points>" ...]`: run C09 scenarios (also under Miri).
//! Exit 1 on violation.
fn main() {
    let mut bad = 0;
    let mut n = 0;
    for arg in std::env::args().skip(1) {
        n += 1;
        let (ops, gcs) = simgc::parse(&arg);
        let out = simgc::run(&ops, &gcs);
        println!(
            "#{n} ops={} skipped={} collections={} injected={} in_borrow={} nodes={} freed={} resurrections={} tainted={}",
            out.ops_executed, out.ops_skipped, out.collections, out.injected_fired, out.in_borrow_collections, out.nodes, out.freed, out.resurrections, out.tainted
        );
        for (c, d) in &out.violations {
            println!("VIOLATION-CLASS {c}: {d} [history {arg}]");
            bad += 1;
        }
    }
    if bad > 0 {
        std::process::exit(1);
    }
}
