use boa_sim::harness::{self, Tier, harness_error};

/// The workers run under an address-space cap (`harness::cap_address_space`). When an allocation
/// fails there, Rust aborts the process; this wrapper first tells the orchestrator why, so that the
/// death of the worker is counted as the sandbox running out of memory and not as an engine abort.
struct MarkingAllocator;

// SAFETY: every call is forwarded unchanged to the system allocator.
unsafe impl std::alloc::GlobalAlloc for MarkingAllocator {
    unsafe fn alloc(&self, layout: std::alloc::Layout) -> *mut u8 {
        let p = unsafe { std::alloc::System.alloc(layout) };
        if p.is_null() {
            oom_marker();
        }
        p
    }
    unsafe fn dealloc(&self, ptr: *mut u8, layout: std::alloc::Layout) {
        unsafe { std::alloc::System.dealloc(ptr, layout) }
    }
    unsafe fn alloc_zeroed(&self, layout: std::alloc::Layout) -> *mut u8 {
        let p = unsafe { std::alloc::System.alloc_zeroed(layout) };
        if p.is_null() {
            oom_marker();
        }
        p
    }
    unsafe fn realloc(&self, ptr: *mut u8, layout: std::alloc::Layout, new_size: usize) -> *mut u8 {
        let p = unsafe { std::alloc::System.realloc(ptr, layout, new_size) };
        if p.is_null() {
            oom_marker();
        }
        p
    }
}

fn oom_marker() {
    unsafe extern "C" {
        fn write(fd: i32, buf: *const u8, count: usize) -> isize;
    }
    const MSG: &[u8] = b"\nOOM\n";
    // SAFETY: plain write(2) of a static buffer to stdout; no allocation on this path.
    let _ = unsafe { write(1, MSG.as_ptr(), MSG.len()) };
}

#[global_allocator]
static ALLOCATOR: MarkingAllocator = MarkingAllocator;

fn main() {
    let args: Vec<String> = std::env::args().collect();
    if args.len() >= 2 && args[1] == "kernels" {
        // authoring aid: run every kernel once and show what it prints
        for k in boa_sim::kernels::KERNELS {
            let mut rng = boa_sim::rng::Rng::new(7);
            let src = boa_sim::kernels::instantiate(k, &mut rng);
            let (mut ctx, host) = boa_sim::js::new_default_context();
            let r = ctx.eval(boa_engine::Source::from_bytes(src.as_str()));
            let c = boa_sim::js::completion(&r, &mut ctx);
            let j = ctx.run_jobs();
            println!("== {} [{}] => {c} jobs_ok={}", k.name, k.kind, j.is_ok());
            for l in host.trace.take() {
                println!("   {l}");
            }
            for l in host.weak.take() {
                println!("   (weak) {l}");
            }
        }
        return;
    }
    if args.len() >= 2 && args[1] == "harvest-measure" {
        // authoring aid: allocation points and wall time of every harvested group (never-collect)
        for (i, (name, parts)) in boa_sim::kernels::harvest().iter().enumerate() {
            let t0 = std::time::Instant::now();
            let inst = boa_sim::js::install_gc(&boa_sim::js::GcPolicy::Never);
            {
                let (mut ctx, _host) = boa_sim::js::new_default_context();
                let mut rl = boa_engine::vm::RuntimeLimits::default();
                rl.set_loop_iteration_limit(200_000);
                ctx.set_runtime_limits(rl);
                for p in parts {
                    let _ = ctx.eval(boa_engine::Source::from_bytes(p.as_str()));
                    let _ = ctx.run_jobs();
                }
            }
            boa_sim::js::uninstall_gc();
            boa_gc::verif::collect_now();
            println!("{i}\t{}\t{}\t{name}", inst.points.get(), t0.elapsed().as_millis());
        }
        return;
    }
    if args.len() >= 2 && args[1] == "jsgc" {
        // debugging aid: evaluate files in one context, collecting between them
        let (mut ctx, host) = boa_sim::js::new_default_context();
        for f in &args[2..] {
            let src = std::fs::read_to_string(f).expect("read");
            let r = ctx.eval(boa_engine::Source::from_bytes(src.as_str()));
            println!("{f}: {}", boa_sim::js::completion(&r, &mut ctx));
            println!("  jobs: {:?}", ctx.run_jobs().is_ok());
            boa_gc::verif::collect_now();
            println!("  jobs after gc: {:?}", ctx.run_jobs().is_ok());
            println!("  trace {:?} weak {:?}", host.trace.take(), host.weak.take());
        }
        return;
    }
    if args.len() >= 2 && args[1] == "c16-kernels" {
        for (name, src) in boa_sim::props::c16::litmus_kernel_sources() {
            println!("{}", serde_json::json!({"name": name, "src": src}));
        }
        return;
    }
    if args.len() >= 2 && args[1] == "c17-corpus" {
        // authoring aid: fault-free module graphs without dynamic import (half of them forced to have
        // top-level await somewhere), one JSON line each: {mods, entry, second_entry, sources}
        let seed: u64 = args.get(2).and_then(|s| s.parse().ok()).unwrap_or(20_260_922);
        let n: usize = args.get(3).and_then(|s| s.parse().ok()).unwrap_or(100);
        for run in 0..n as u64 {
            let mut rng = boa_sim::rng::Rng::derive(seed, "C17-corpus", run);
            let v = boa_sim::props::c17::generate(&mut rng, if run % 3 == 0 { Tier::Thorough } else { Tier::Quick });
            let mut sc: boa_sim::props::c17::Scenario = serde_json::from_value(v).expect("scenario");
            if sc.expected.is_some() {
                continue;
            }
            sc.faults.clear();
            sc.fault_times.clear();
            for m in &mut sc.mods {
                m.dynamic = None;
                m.imports.retain(|im| im.kind != 7);
            }
            if run % 2 == 0 && sc.mods.iter().all(|m| m.awaits == 0) {
                let k = rng.range(1, 2);
                for _ in 0..k {
                    let i = rng.idx(sc.mods.len());
                    sc.mods[i].awaits = rng.range(1, 3) as u8;
                }
            }
            let sources: Vec<String> = sc.mods.iter().enumerate().map(|(i, m)| boa_sim::props::c17::render(i, m)).collect();
            println!("{}", serde_json::json!({"mods": sc.mods, "entry": sc.entry, "second_entry": sc.second_entry, "sources": sources}));
        }
        return;
    }
    if args.len() >= 2 && args[1] == "c09-miri-sample" {
        // resurrection-free C09 histories of the thorough generator, one per line
        let seed: u64 = args.get(2).and_then(|s| s.parse().ok()).unwrap_or(20_260_922);
        let n: usize = args.get(3).and_then(|s| s.parse().ok()).unwrap_or(64);
        let mut run = 0u64;
        let mut out = 0;
        while out < n {
            let mut rng = boa_sim::rng::Rng::derive(seed, "C09", run);
            let v = boa_sim::props::c09::generate(&mut rng, Tier::Quick);
            run += 1;
            if v["resurrection"].as_bool() == Some(false) {
                println!("{}", v["history"].as_str().unwrap_or(""));
                out += 1;
            }
        }
        return;
    }
    if args.len() >= 2 && args[1] == "jslim" {
        // debugging aid: evaluate files in one context; a file name prefixed with "L<n>:" runs under loop limit n
        let (mut ctx, host) = boa_sim::js::new_default_context();
        for f in &args[2..] {
            let (lim, path) = match f.strip_prefix('L').and_then(|r| r.split_once(':')) {
                Some((n, p)) => (n.parse::<u64>().ok(), p.to_string()),
                None => (None, f.clone()),
            };
            let mut rl = boa_engine::vm::RuntimeLimits::default();
            if let Some(n) = lim { rl.set_loop_iteration_limit(n); }
            ctx.set_runtime_limits(rl);
            let src = std::fs::read_to_string(&path).expect("read");
            let r = ctx.eval(boa_engine::Source::from_bytes(src.as_str()));
            println!("{f}: {} jobs={:?} trace {:?}", boa_sim::js::completion(&r, &mut ctx), ctx.run_jobs().is_ok(), host.trace.take());
        }
        return;
    }
    if args.len() >= 2 && args[1] == "list" {
        for p in boa_sim::props() {
            println!("{}", p.id);
        }
        return;
    }
    if args.len() < 3 {
        harness_error("usage: boa_sim check|worker|exec|replay|gen <property> ...");
    }
    if args[1] == "js" {
        // debugging aid: evaluate a file, print trace, completion and VM depths
        let src = std::fs::read_to_string(&args[2]).expect("read");
        let (mut ctx, host) = boa_sim::js::new_default_context();
        let mut rl = boa_engine::vm::RuntimeLimits::default();
        if let Ok(v) = std::env::var("L") { rl.set_loop_iteration_limit(v.parse().unwrap()); }
        if let Ok(v) = std::env::var("R") { rl.set_recursion_limit(v.parse().unwrap()); }
        if let Ok(v) = std::env::var("S") { rl.set_stack_size_limit(v.parse().unwrap()); }
        ctx.set_runtime_limits(rl);
        let r = ctx.eval(boa_engine::Source::from_bytes(src.as_str()));
        let c = boa_sim::js::completion(&r, &mut ctx);
        let j = ctx.run_jobs();
        for l in host.trace.take() {
            println!("{l}");
        }
        println!("=> {c} jobs_ok={} {:?}", j.is_ok(), boa_engine::verif::vm_depths(&ctx));
        return;
    }
    if args[1] == "c16-compare" {
        // authoring aid: run every program of a {programs:[{name,src,expected}]} file synchronously and
        // list the ones whose trace differs from the expectation
        let v: serde_json::Value = serde_json::from_str(&std::fs::read_to_string(&args[2]).expect("read")).expect("json");
        let mut bad = 0;
        for p in v["programs"].as_array().expect("programs") {
            let src = p["src"].as_str().unwrap_or("");
            let exp: Vec<String> = p["expected"].as_array().expect("expected").iter().map(|s| s.as_str().unwrap_or("").to_string()).collect();
            let (mut ctx, host) = boa_sim::js::new_default_context();
            let r = ctx.eval(boa_engine::Source::from_bytes(src));
            let c = boa_sim::js::completion(&r, &mut ctx);
            let j = ctx.run_jobs();
            let got = host.trace.take();
            if got != exp || !c.starts_with("ok:") || j.is_err() {
                bad += 1;
                let at = got.iter().zip(exp.iter()).position(|(a, b)| a != b).unwrap_or(got.len().min(exp.len()));
                println!("MISMATCH {} completion={c} jobs_ok={} at {at}: got {:?} expected {:?}", p["name"], j.is_ok(), got.get(at), exp.get(at));
            }
        }
        println!("{bad} mismatches");
        return;
    }
    if args[1] == "corners" {
        // authoring aid: every corner snippet on a fresh context, panics caught
        for (name, src) in boa_sim::props::c02::corners() {
            let r = std::panic::catch_unwind(|| {
                let (mut ctx, host) = boa_sim::js::new_default_context();
                let r = ctx.eval(boa_engine::Source::from_bytes(src.as_str()));
                let c = boa_sim::js::completion(&r, &mut ctx);
                let j = ctx.run_jobs();
                (c, j.is_ok(), host.trace.take())
            });
            match r {
                Ok((c, j, t)) => println!("{name}: {} jobs_ok={j} {:?}", c.chars().take(120).collect::<String>(), t.iter().map(|l| l.chars().take(160).collect::<String>()).collect::<Vec<_>>()),
                Err(_) => println!("{name}: PANIC"),
            }
        }
        return;
    }
    if args[1] == "jsparts" {
        // debugging aid: the file is split at lines "//---"; every part is one host entry on the same context
        let src = std::fs::read_to_string(&args[2]).expect("read");
        let (mut ctx, host) = boa_sim::js::new_default_context();
        for (i, part) in src.split("//---").enumerate() {
            let r = ctx.eval(boa_engine::Source::from_bytes(part));
            let c = boa_sim::js::completion(&r, &mut ctx);
            let j = ctx.run_jobs();
            println!("#{i} {c} jobs_ok={} trace={:?} stack={}", j.is_ok(), host.trace.take(), boa_engine::verif::vm_depths(&ctx).stack);
        }
        return;
    }
    if args[1] == "mod" {
        let src = std::fs::read_to_string(&args[2]).expect("read");
        let upto: u32 = std::env::var("UPTO").ok().and_then(|s| s.parse().ok()).unwrap_or(9);
        {
            let (mut ctx, host) = boa_sim::js::new_default_context();
            let d = |c: &boa_engine::Context, w: &str| println!("{w}: {:?}", boa_engine::verif::vm_depths(c).stack);
            let m = boa_engine::Module::parse(boa_engine::Source::from_bytes(src.as_str()), None, &mut ctx).expect("parse");
            d(&ctx, "parsed");
            if upto >= 1 {
                let p = m.load(&mut ctx);
                ctx.run_jobs().expect("jobs");
                println!("load {:?}", p.state());
            }
            if upto >= 2 {
                m.link(&mut ctx).expect("link");
                d(&ctx, "link");
            }
            if upto >= 3 {
                let p = m.evaluate(&mut ctx).expect("evaluate");
                ctx.run_jobs().expect("jobs");
                println!("{:?} {:?}", p.state(), host.trace.take());
            }
        }
        boa_gc::verif::collect_now();
        println!("after drop + collect: {:?}", boa_gc::verif::stats());
        boa_gc::verif::collect_now();
        println!("after second collect: {:?}", boa_gc::verif::stats());
        return;
    }
    harness::install_panic_hook();
    let props = boa_sim::props();
    let Some(prop) = props.iter().find(|p| p.id == args[2]) else {
        harness_error(&format!("unknown property {}", args[2]));
    };
    let code = match args[1].as_str() {
        "check" => {
            let tier = Tier::parse(args.get(3).map_or("quick", String::as_str)).unwrap_or_else(|| harness_error("tier"));
            harness::check(prop, tier)
        }
        "worker" => {
            let tier = Tier::parse(&args[3]).unwrap_or_else(|| harness_error("tier"));
            let seed: u64 = args[4].parse().unwrap_or_else(|_| harness_error("seed"));
            let runs: Vec<u64> = args[5].split(',').filter_map(|s| s.parse().ok()).collect();
            harness::worker(prop, tier, seed, runs.into_iter());
            0
        }
        "exec" => {
            harness::exec_file(prop, &args[3]);
            0
        }
        "replay" => harness::replay(prop, &args[3]),
        "audit" => {
            let tier = Tier::parse(args.get(3).map_or("quick", String::as_str)).unwrap_or_else(|| harness_error("tier"));
            harness::audit(prop, tier)
        }
        "gen" => {
            let tier = Tier::parse(&args[3]).unwrap_or_else(|| harness_error("tier"));
            let seed: u64 = args[4].parse().unwrap_or_else(|_| harness_error("seed"));
            let run: u64 = args[5].parse().unwrap_or_else(|_| harness_error("run"));
            let mut rng = boa_sim::rng::Rng::derive(seed, prop.id, run);
            println!("{}", serde_json::to_string_pretty(&(prop.generate)(&mut rng, tier)).expect("ser"));
            0
        }
        other => harness_error(&format!("unknown command {other}")),
    };
    std::process::exit(code);
}
