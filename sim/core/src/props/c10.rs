//! C10 — garbage collection is unobservable to scripts and leaves nothing behind.
//!
//! One scenario = a program (kernel composition or a harvested test group: several evaluations
//! sharing a context), an evaluation mode (sync / budgeted with collections at yields) and a
//! collection schedule σ on hook H1. Oracles: (1) trace and completions equal the never-collect
//! run of the same scenario; (2) weak observations satisfy by-construction constraints;
//! (3) after the context is dropped and one collection runs the heap is what it was before.

use crate::harness::{Prop, RunReport, Tier};
use crate::js::{self, GcPolicy};
use crate::kernels;
use crate::rng::{Fp, Rng};
use boa_engine::{Source, vm::RuntimeLimits};
use serde::{Deserialize, Serialize};
use serde_json::Value;

#[derive(Serialize, Deserialize, Clone, Debug)]
pub enum Sched {
    EveryK(u64),
    Bernoulli { seed: u64, per_mille: u32 },
    /// only between host entries and around run_jobs
    Boundaries,
}

#[derive(Serialize, Deserialize, Clone, Debug)]
pub struct Scenario {
    pub name: String,
    pub parts: Vec<String>,
    pub budget: u32,
    pub sched: Sched,
    /// also collect between parts / around run_jobs / at yields
    pub at_boundaries: bool,
    /// the program uses the weak-observation channel
    pub weak: bool,
    /// when set, `parts` are the sources of modules m0..m(n-1) and m<entry> is evaluated through
    /// the simulated loader (zero latency) instead of evaluating the parts as scripts
    #[serde(default)]
    pub module_entry: Option<usize>,
}

pub fn generate(rng: &mut Rng, tier: Tier) -> Value {
    if rng.chance(1, 8) {
        // a module graph (same generator as C17, fault-free): records, environments, namespaces,
        // async evaluation state under collection schedules
        let g: crate::props::c17::Scenario = serde_json::from_value(crate::props::c17::generate(rng, tier)).expect("graph");
        let mut g = g;
        for m in &mut g.mods {
            // fault-free: no unresolvable imports
            m.imports.retain(|im| im.kind != 7);
        }
        let parts: Vec<String> = g.mods.iter().enumerate().map(|(i, m)| crate::props::c17::render(i, m)).collect();
        let sched = match rng.below(6) {
            0 => Sched::EveryK(1),
            1 => Sched::EveryK(2),
            2 => Sched::EveryK(7),
            3 => Sched::EveryK(64),
            4 => Sched::Bernoulli { seed: rng.next_u64(), per_mille: *rng.pick(&[10u32, 50, 200]) },
            _ => Sched::Boundaries,
        };
        let sc = Scenario { name: format!("modules:n{}", parts.len()), parts, budget: 0, sched, at_boundaries: rng.chance(1, 2), weak: false, module_entry: Some(g.entry) };
        return serde_json::to_value(sc).expect("ser");
    }
    let from_harvest = rng.chance(2, 5);
    let (name, parts, weak) = if rng.chance(1, 8) {
        // promise reactions, async functions and async generators in flight (C16's generated corpus)
        let g = crate::props::c16::generated();
        let (n, src, _) = &g[rng.idx(g.len())];
        (format!("async:{n}"), vec![src.clone()], false)
    } else if from_harvest {
        let h = kernels::harvest();
        let g = &h[rng.idx(h.len())];
        (format!("harvest:{}", g.0), g.1.clone(), false)
    } else {
        let n = rng.range(1, if tier == Tier::Quick { 3 } else { 5 }) as usize;
        let weak = rng.chance(1, 4);
        let (mut ks, mut names) = kernels::compose(rng, "spd", n);
        if weak {
            let k = kernels::KERNELS.iter().find(|k| k.name == "weak-dropped").expect("kernel");
            for _ in 0..rng.range(1, 2) {
                ks.push(kernels::instantiate(k, rng));
                names.push(k.name);
            }
        }
        // split across evaluations sometimes: same drain points in every configuration
        let mut parts: Vec<String> = if weak || rng.chance(1, 3) { ks } else { vec![ks.concat()] };
        if weak {
            if rng.chance(1, 2) {
                // a registry whose cleanup callback throws for some held values: the registration is
                // gone all the same, and the other dead cells are reported by later cleanups
                let t = kernels::KERNELS.iter().find(|k| k.name == "weak-throwing-cleanup").expect("kernel");
                parts.push(kernels::instantiate(t, rng));
            }
            // observe in later host entries, after the kept-alive list of earlier jobs was cleared
            let obs = kernels::KERNELS.iter().find(|k| k.name == "weak-observe").expect("kernel");
            for _ in 0..rng.range(2, 4) {
                parts.push(kernels::instantiate(obs, rng));
            }
        }
        (format!("kernels:{}", names.join("+")), parts, weak)
    };
    let sched = match rng.below(10) {
        0 => Sched::EveryK(1),
        1 => Sched::EveryK(2),
        2 => Sched::EveryK(3),
        3 | 4 => Sched::EveryK(7),
        5 | 6 => Sched::EveryK(64),
        7 | 8 => Sched::Bernoulli { seed: rng.next_u64(), per_mille: *rng.pick(&[2u32, 10, 50, 200]) },
        _ => Sched::Boundaries,
    };
    let budget = if rng.chance(1, 4) { *rng.pick(&[1u32, 2, 5, 13, 100, 256]) } else { 0 };
    let sc = Scenario { name, parts, budget, sched, at_boundaries: rng.chance(1, 2), weak, module_entry: None };
    serde_json::to_value(sc).expect("ser")
}

struct Outcome {
    log: Vec<String>,
    weak: Vec<String>,
    collections: u64,
    at_alloc: u64,
    at_boundary: u64,
    at_yield: u64,
    yields: u64,
    alloc_points: u64,
    leak: Option<String>,
    lag: Option<String>,
}

fn run_once(sc: &Scenario, collect: bool) -> Outcome {
    // clean slate on this thread
    boa_gc::verif::set_policy(None);
    boa_gc::verif::collect_now();
    boa_gc::verif::collect_now();
    boa_gc::verif::collect_now();
    let base = boa_gc::verif::stats();
    let policy = if !collect {
        GcPolicy::Never
    } else {
        match &sc.sched {
            Sched::EveryK(k) => GcPolicy::EveryK(*k),
            Sched::Bernoulli { seed, per_mille } => GcPolicy::Bernoulli { seed: *seed, per_mille: *per_mille },
            Sched::Boundaries => GcPolicy::Never,
        }
    };
    let inst = js::install_gc(&policy);
    let boundaries = collect && (sc.at_boundaries || matches!(sc.sched, Sched::Boundaries));
    let mut out = Outcome {
        log: vec![],
        weak: vec![],
        collections: 0,
        at_alloc: 0,
        at_boundary: 0,
        at_yield: 0,
        yields: 0,
        alloc_points: 0,
        leak: None,
        lag: None,
    };
    let weak_maps_before_drop;
    if let Some(entry) = sc.module_entry {
        use crate::seams::{LoadPlan, SimLoader};
        let loader = std::rc::Rc::new(SimLoader::default());
        for (i, src) in sc.parts.iter().enumerate() {
            loader.sources.borrow_mut().insert(format!("m{i}"), src.clone());
            loader.plans.borrow_mut().insert(format!("m{i}"), LoadPlan { latency: (i % 3) as u32, fault: 0, fault_times: 0 });
        }
        {
            let (mut ctx, host) = js::new_context::<boa_engine::job::SimpleJobExecutor, SimLoader>(None, Some(loader.clone()));
            for phase in 0..2 {
                if boundaries {
                    boa_gc::verif::collect_now();
                    out.at_boundary += 1;
                }
                match loader.get_or_parse(&format!("m{entry}"), &mut ctx) {
                    Err(e) => out.log.push(format!("#{phase} {}", js::error_string(&e, &mut ctx))),
                    Ok(m) => {
                        let p = m.load_link_evaluate(&mut ctx);
                        if let Err(e) = ctx.run_jobs() {
                            out.log.push(format!("#{phase} jobs:{}", js::error_string(&e, &mut ctx)));
                        }
                        let st = match p.state() {
                            boa_engine::builtins::promise::PromiseState::Pending => "pending".to_string(),
                            boa_engine::builtins::promise::PromiseState::Fulfilled(_) => "fulfilled".to_string(),
                            boa_engine::builtins::promise::PromiseState::Rejected(v) => format!("rejected:{}", js::show(&v, &mut ctx)),
                        };
                        out.log.push(format!("#{phase} {st}"));
                    }
                }
                out.log.extend(host.trace.take());
                ctx.clear_kept_objects();
            }
            out.at_alloc = inst.fired.get();
            out.alloc_points = inst.points.get();
            weak_maps_before_drop = boa_gc::verif::stats().weak_maps;
            drop(ctx);
            drop(host);
        }
        drop(loader);
    } else {
        let (mut ctx, host) = js::new_default_context();
        let mut rl = RuntimeLimits::default();
        rl.set_loop_iteration_limit(200_000);
        ctx.set_runtime_limits(rl);
        let boundary = |out: &mut Outcome| {
            if boundaries {
                boa_gc::verif::collect_now();
                out.at_boundary += 1;
            }
        };
        for (i, part) in sc.parts.iter().enumerate() {
            boundary(&mut out);
            let r = if sc.budget == 0 {
                ctx.eval(Source::from_bytes(part.as_str()))
            } else {
                let mut ycol = 0u64;
                let (r, y) = js::eval_budgeted(&mut ctx, part, sc.budget, 3_000_000, |n| {
                    if boundaries && n % 3 == 0 && ycol < 5000 {
                        boa_gc::verif::collect_now();
                        ycol += 1;
                    }
                });
                out.yields += y;
                out.at_yield += ycol;
                r
            };
            let c = js::completion(&r, &mut ctx);
            out.log.push(format!("#{i} {c}"));
            out.log.extend(host.trace.take());
            boundary(&mut out);
            // An error thrown by a FinalizationRegistry cleanup callback comes out of run_jobs; like
            // the callback itself it belongs to the weak-observation channel, and the host drains again.
            for _attempt in 0..40 {
                let j = ctx.run_jobs();
                match &j {
                    Err(e) => {
                        let msg = js::error_string(e, &mut ctx);
                        if msg.contains("cleanup-throw") {
                            host.weak.push(format!("cleanup-error {msg}"));
                            continue;
                        }
                        out.log.push(format!("#{i} jobs:{msg}"));
                    }
                    Ok(()) => {}
                }
                break;
            }
            out.log.extend(host.trace.take());
            // the host's part of ClearKeptObjects: synchronous execution has completed
            ctx.clear_kept_objects();
        }
        boundary(&mut out);
        // give FinalizationRegistry cleanup jobs a chance in both configurations
        let _ = ctx.run_jobs();
        out.log.extend(host.trace.take());
        out.weak = host.weak.take();
        out.at_alloc = inst.fired.get();
        out.alloc_points = inst.points.get();
        weak_maps_before_drop = boa_gc::verif::stats().weak_maps;
        drop(ctx);
        drop(host);
    }
    js::uninstall_gc();
    // nothing left behind: ONE collection after the context is gone
    boa_gc::verif::collect_now();
    let after = boa_gc::verif::stats();
    out.collections = (after.collections - base.collections) as u64;
    if (after.strongs, after.ephemerons, after.weak_maps) != (base.strongs, base.ephemerons, base.weak_maps) {
        let only_eph_lag = after.strongs == base.strongs
            && after.weak_maps == base.weak_maps
            && after.ephemerons > base.ephemerons
            && after.ephemerons - base.ephemerons <= weak_maps_before_drop;
        boa_gc::verif::collect_now();
        let after2 = boa_gc::verif::stats();
        let clean2 = (after2.strongs, after2.ephemerons, after2.weak_maps) == (base.strongs, base.ephemerons, base.weak_maps);
        if only_eph_lag && clean2 {
            out.lag = Some(format!(
                "{} ephemeron box(es) survived the collection after the context was dropped ({} weak maps/sets died in it); gone after the next collection",
                after.ephemerons - base.ephemerons,
                weak_maps_before_drop
            ));
        } else {
            out.leak = Some(format!(
                "heap before the context: {}/{}/{} (strong/ephemeron/weak-map boxes); after drop + one collection: {}/{}/{}; after a second collection: {}/{}/{}",
                base.strongs, base.ephemerons, base.weak_maps, after.strongs, after.ephemerons, after.weak_maps, after2.strongs, after2.ephemerons, after2.weak_maps
            ));
        }
    }
    out
}

fn check_weak(obs: &[String], rep: &mut RunReport, which: &str) {
    let mut seen = std::collections::BTreeSet::new();
    for o in obs {
        if o == "stable-within-job false" {
            rep.violate("weak-unstable-within-job", format!("{which}: two deref() calls in one job disagreed"));
        }
        if o.starts_with("alive-later ") {
            let mut it = o.split(' ').skip(1);
            let (a, n) = (it.next().unwrap_or("0"), it.next().unwrap_or("0"));
            if a != n {
                rep.probe("weakref_observed_collected", 1);
            }
        }
        if o == "kept-deref false" {
            rep.violate("weak-kept-collected", format!("{which}: WeakRef.deref() of a reachable object returned undefined"));
        }
        if o.starts_with("cleanup-error ") {
            rep.probe("cleanup_callback_threw", 1);
        }
        if let Some(h) = o.strip_prefix("finalized ") {
            rep.probe("finalization_callback", 1);
            if !h.starts_with("dropped") {
                rep.violate("weak-finalized-reachable", format!("{which}: FinalizationRegistry reported {h:?} (kept or unregistered)"));
            }
            if !seen.insert(h.to_string()) {
                rep.violate("weak-finalized-twice", format!("{which}: {h:?} reported more than once"));
            }
        }
    }
}

pub fn execute(v: &Value) -> RunReport {
    let sc: Scenario = serde_json::from_value(v.clone()).expect("scenario");
    let mut rep = RunReport::default();
    let r = run_once(&sc, false);
    let t = run_once(&sc, true);
    rep.execs = 2;
    if r.log != t.log {
        let at = r.log.iter().zip(t.log.iter()).position(|(a, b)| a != b).unwrap_or(r.log.len().min(t.log.len()));
        rep.violate(
            "trace-divergence",
            format!("{} [{:?} budget {}]: item {at}: never-collect {:?} vs scheduled {:?}", sc.name, sc.sched, sc.budget, r.log.get(at), t.log.get(at)),
        );
    }
    if t.log.iter().chain(r.log.iter()).any(|l| l.contains("enginepanic:")) {
        rep.violate("engine-panic", format!("{}: {:?}", sc.name, t.log.iter().find(|l| l.contains("enginepanic:"))));
    }
    if sc.weak {
        check_weak(&r.weak, &mut rep, "never-collect");
        check_weak(&t.weak, &mut rep, "scheduled");
        if r.weak.iter().any(|o| o.starts_with("finalized ")) {
            rep.violate("weak-finalized-without-collection", "a finalization callback ran although no collection happened".to_string());
        }
    }
    for (o, which) in [(&r, "never-collect"), (&t, "scheduled")] {
        if let Some(l) = &o.leak {
            rep.violate("leak", format!("{} [{which}]: {l}", sc.name));
            rep.poisoned = true;
        }
        if let Some(l) = &o.lag {
            rep.violate("weakmap-tracking-box-lag", format!("{} [{which}]: {l}", sc.name));
        }
    }
    rep.fault("gc.at_alloc", t.at_alloc);
    rep.fault("gc.at_boundary", t.at_boundary);
    rep.fault("gc.at_yield", t.at_yield);
    rep.fault("yield", t.yields);
    rep.probe("alloc_points", t.alloc_points);
    rep.probe("collections", t.collections);
    let mut fp = Fp::default();
    for l in &t.log {
        fp.add(l);
    }
    fp.add_u64(t.alloc_points);
    rep.fingerprint = fp.0;
    let mut sfp = Fp::default();
    sfp.add(&format!("{:?}{}{}", sc.sched, sc.budget, sc.at_boundaries));
    sfp.add_u64(t.at_alloc);
    sfp.add_u64(t.alloc_points);
    rep.sched_fp = sfp.0;
    rep.steps = t.alloc_points;
    rep.nontrivial = t.at_alloc + t.at_boundary + t.at_yield > 0;
    rep.shape = sc.name.clone();
    rep
}

pub fn shrink(v: &Value) -> Vec<Value> {
    let sc: Scenario = serde_json::from_value(v.clone()).expect("scenario");
    let mut out = vec![];
    for i in 0..sc.parts.len() {
        if sc.parts.len() > 1 {
            let mut s = sc.clone();
            s.parts.remove(i);
            out.push(s);
        }
    }
    if sc.budget != 0 {
        let mut s = sc.clone();
        s.budget = 0;
        out.push(s);
    }
    if sc.at_boundaries {
        let mut s = sc.clone();
        s.at_boundaries = false;
        out.push(s);
    }
    // drop lines / statements of single-part programs
    if sc.parts.len() == 1 {
        let lines: Vec<&str> = sc.parts[0].lines().collect();
        if lines.len() > 1 {
            for i in 0..lines.len() {
                let mut l = lines.clone();
                l.remove(i);
                let mut s = sc.clone();
                s.parts[0] = l.join("\n");
                out.push(s);
            }
        }
    }
    out.into_iter().map(|s| serde_json::to_value(s).expect("ser")).collect()
}

pub const PROP: Prop = Prop {
    id: "C10",
    level: "fault_enumeration",
    runs_quick: 24_000,
    runs_thorough: 600_000,
    generate,
    execute,
    shrink,
    rule: "one run = one program (1..3 kernels out of 42 feature kernels (weak kernels incl. a registry whose cleanup callback throws, observed over 2..4 later host entries that register further short-lived targets), possibly split across evaluations, one of 858 harvested test groups = several evaluations sharing a context, or — 1 run in 8 each — a fault-free module graph from the C17 generator evaluated twice through the simulated loader, or one of C16's 2493 generated promise / async-generator programs) x evaluation mode (sync / budget 1..256 with collections at yields) x collection schedule (every k-th allocation for k in {1,2,3,7,64} — k=1 enumerates every allocation point of the program —, seeded Bernoulli at 0.2..20 %, host-entry and job boundaries), executed under the schedule and under 'never collect'; non-trivial = at least one collection was injected; distinct = distinct (program, schedule, budget, allocation points, collections fired)",
    real: &["lexer/parser/compiler/VM/builtins", "boa_gc collector and allocator", "SimpleJobExecutor", "WeakRef/FinalizationRegistry machinery"],
    stub: &["collection trigger decision (hook H1)", "SimClock", "SimHooks", "print/weakobs natives"],
    assumptions: &[
        "weak observations go through a separate channel and are only constrained (kept objects never reported, dropped ones at most once, nothing without a collection), never compared",
        "harvested groups mentioning WeakRef/FinalizationRegistry, real time, locale or unbounded loops are excluded at authoring time; a loop limit of 200000 is set in both configurations",
    ],
    nondeterminism_is_violation: false,
    hang_is_violation: true,
};
