//! C09 — the collector frees exactly the unreachable objects, exactly once.
//!
//! boa_gc alone (all real) under a seeded operation history with collections injected at
//! chosen allocation points (hook H1); the executor and its reachability model live in the
//! `simgc` crate so that the very same code also runs under Miri.

use crate::harness::{Prop, RunReport, Tier};
use crate::rng::Rng;
use serde_json::{Value, json};
use simgc::{NONE, Op, code, mode};

fn gen_ops(rng: &mut Rng, tier: Tier) -> (Vec<Op>, Vec<(u32, u32)>, bool) {
    // Small universe (1 history in 5): at most 3 handle slots and 3..8 operations with a collection
    // injected into nearly every allocating operation: the region the property's quantifier asks to
    // cover densely, sampled rather than enumerated.
    let small = rng.chance(1, 5);
    let n = if small {
        rng.range(3, 8)
    } else {
        match tier {
        Tier::Quick => rng.range(6, 40),
        Tier::Thorough => {
            if rng.chance(1, 40) {
                rng.range(500, 5000)
            } else {
                rng.range(6, 120)
            }
        }
        }
    } as usize;
    // swarm: per-run weights
    let resurrection = rng.chance(1, 12);
    let mut w = [0u64; code::COUNT as usize];
    for (i, x) in w.iter_mut().enumerate() {
        *x = match i as u8 {
            code::ALLOC => 10,
            code::LINK => 8,
            code::DROP => 7,
            code::COLLECT => 3,
            _ => 3,
        } * rng.range(0, 3);
    }
    w[code::ALLOC as usize] = w[code::ALLOC as usize].max(6);
    w[code::DROP as usize] = w[code::DROP as usize].max(3);
    if !resurrection {
        w[code::SET_MODE as usize] = 0;
        w[code::DROP_RESURRECTED as usize] = 0;
    }
    let total: u64 = w.iter().sum();
    let gc_rate = if small { *rng.pick(&[50u64, 100, 100]) } else { *rng.pick(&[0u64, 5, 20, 50, 100]) };
    let slots: u64 = if small { 3 } else { 12 };
    let mut ops = vec![];
    let mut gcs = vec![];
    // Motif prefix (1 history in 3): the handle list is known at the start of a history, so a
    // structured shape can be addressed exactly. Chain of length n: v, k0..k(n-1) with
    // e0 = (k0 -> v), e(i) = (k(i) -> k(i-1)), created in a seeded order, then every handle but the
    // head key is dropped: each key is reachable only through the value of the next ephemeron,
    // which needs one fix-point round per link when the creation order is the reverse of the
    // dependency order. Variants: ephemerons held by the simulator, stored in the head key, or
    // entries of a weak map.
    if !small && rng.chance(1, 3) {
        let n = rng.range(2, 7) as u32;
        let variant = rng.below(3);
        for _ in 0..=n {
            ops.push(Op { code: code::ALLOC, a: 0, b: NONE, c: NONE });
        }
        if variant == 2 {
            ops.push(Op { code: code::MAP_NEW, a: NONE, b: 0, c: 0 });
        }
        let mut order: Vec<u32> = (0..n).collect();
        match rng.below(3) {
            0 => {}
            1 => order.reverse(),
            _ => {
                for i in (1..order.len()).rev() {
                    let j = rng.idx(i + 1);
                    order.swap(i, j);
                }
            }
        }
        for i in &order {
            // key k(i) is node i+1 (handle slot i+1), value is node i (slot i)
            let op = match variant {
                0 => Op { code: code::EPH, a: i + 1, b: *i, c: NONE },
                1 => Op { code: code::EPH, a: i + 1, b: *i, c: n },
                _ => Op { code: code::MAP_INSERT, a: 0, b: i + 1, c: *i },
            };
            if rng.chance(1, 4) {
                gcs.push((ops.len() as u32, 0));
            }
            ops.push(op);
        }
        for _ in 0..n {
            ops.push(Op { code: code::DROP, a: 0, b: 0, c: 0 });
        }
        ops.push(Op { code: code::COLLECT, a: 0, b: 0, c: 0 });
        for j in 0..n {
            ops.push(match variant {
                0 => Op { code: code::READ_EPH, a: j, b: 0, c: 0 },
                1 => Op { code: code::NODE_READ_EPH, a: 0, b: j, c: 0 },
                _ => Op { code: code::COLLECT, a: 0, b: 0, c: 0 },
            });
        }
        if rng.chance(1, 2) {
            // finally let go of the head: the whole chain must die in one collection
            ops.push(Op { code: code::DROP, a: 0, b: 0, c: 0 });
            ops.push(Op { code: code::COLLECT, a: 0, b: 0, c: 0 });
        }
    }
    let motif_len = ops.len();
    let slot = |rng: &mut Rng| rng.below(slots) as u32;
    let slot_or_none = |rng: &mut Rng| if rng.chance(1, 2) { NONE } else { rng.below(slots) as u32 };
    for i in motif_len..motif_len + n {
        let mut pick = rng.below(total);
        let mut c = 0u8;
        for (k, x) in w.iter().enumerate() {
            if pick < *x {
                c = k as u8;
                break;
            }
            pick -= *x;
        }
        let fin = |rng: &mut Rng| -> u32 {
            if resurrection && rng.chance(1, 3) { rng.range(1, u64::from(mode::COUNT) - 1) as u32 } else if rng.chance(1, 8) { u32::from(mode::CLEAR_EDGES) } else { 0 }
        };
        let op = match c {
            code::ALLOC | code::CYCLIC => Op { code: c, a: fin(rng), b: slot_or_none(rng), c: slot_or_none(rng) },
            code::WEAK | code::MAP_NEW => Op { code: c, a: if c == code::MAP_NEW { slot_or_none(rng) } else { slot(rng) }, b: slot_or_none(rng), c: 0 },
            code::EPH => Op { code: c, a: slot(rng), b: slot(rng), c: slot_or_none(rng) },
            code::SET_MODE => Op { code: c, a: slot(rng), b: fin(rng), c: 0 },
            _ => Op { code: c, a: slot(rng), b: slot(rng), c: slot(rng) },
        };
        let allocs = matches!(
            c,
            code::ALLOC | code::CYCLIC | code::WEAK | code::EPH | code::MAP_NEW | code::MAP_INSERT | code::ALLOC_IN_BORROW
        );
        if allocs && rng.below(100) < gc_rate {
            gcs.push((i as u32, rng.below(2) as u32));
        }
        ops.push(op);
    }
    (ops, gcs, resurrection)
}

pub fn generate(rng: &mut Rng, tier: Tier) -> Value {
    let (ops, gcs, resurrection) = gen_ops(rng, tier);
    json!({"history": simgc::render(&ops, &gcs), "resurrection": resurrection})
}

pub fn execute(v: &Value) -> RunReport {
    let (ops, gcs) = simgc::parse(v["history"].as_str().unwrap_or(""));
    let out = simgc::run(&ops, &gcs);
    let mut rep = RunReport::default();
    for (c, d) in &out.violations {
        rep.violate(c.clone(), d.clone());
    }
    rep.fault("gc.at_alloc", out.injected_fired);
    rep.fault("gc.in_borrow", out.in_borrow_collections);
    rep.probe("collections", out.collections);
    rep.probe("nodes_freed", out.freed);
    rep.probe("finalizer_resurrection", out.resurrections);
    rep.probe("history_tainted_by_resurrection", u64::from(out.tainted));
    rep.probe("ephemeron_fixpoint_needed_2_rounds", u64::from(out.fixpoint_rounds_max >= 2));
    rep.probe("ephemeron_fixpoint_needed_3_rounds", u64::from(out.fixpoint_rounds_max >= 3));
    rep.probe("weak_seen_cleared", out.weak_cleared_seen);
    rep.probe("ephemeron_seen_cleared", out.eph_cleared_seen);
    rep.probe("weakmap_entries_cleared", out.map_entries_cleared);
    rep.probe("ops_executed", out.ops_executed);
    rep.probe("ops_skipped", out.ops_skipped);
    rep.steps = out.ops_executed;
    rep.execs = 1;
    rep.poisoned = out.tainted;
    rep.fingerprint = out.log_hash;
    rep.sched_fp = out.log_hash;
    rep.nontrivial = out.injected_fired > 0 || out.freed > 0;
    rep.shape = format!("n{}g{}", ops.len(), gcs.len());
    rep
}

pub fn shrink(v: &Value) -> Vec<Value> {
    let (ops, gcs) = simgc::parse(v["history"].as_str().unwrap_or(""));
    let res = v["resurrection"].clone();
    let mut out = vec![];
    let mk = |ops: &[Op], gcs: &[(u32, u32)]| json!({"history": simgc::render(ops, gcs), "resurrection": res});
    let drop_range = |a: usize, b: usize| {
        let o: Vec<Op> = ops.iter().enumerate().filter(|(i, _)| *i < a || *i >= b).map(|(_, o)| *o).collect();
        let g: Vec<(u32, u32)> = gcs
            .iter()
            .filter(|(i, _)| (*i as usize) < a || (*i as usize) >= b)
            .map(|(i, n)| if (*i as usize) >= b { (*i - (b - a) as u32, *n) } else { (*i, *n) })
            .collect();
        (o, g)
    };
    let n = ops.len();
    if n > 4 {
        for (a, b) in [(n / 2, n), (0, n / 2), (n / 4, n / 2), (n / 2, 3 * n / 4)] {
            let (o, g) = drop_range(a, b);
            out.push(mk(&o, &g));
        }
    }
    if n <= 200 {
        for i in (0..n).rev() {
            let (o, g) = drop_range(i, i + 1);
            out.push(mk(&o, &g));
        }
    }
    for i in 0..gcs.len().min(100) {
        let mut g = gcs.clone();
        g.remove(i);
        out.push(mk(&ops, &g));
    }
    out
}

pub const PROP: Prop = Prop {
    id: "C09",
    level: "exploration",
    runs_quick: 300_000,
    runs_thorough: 2_000_000,
    generate,
    execute,
    shrink,
    rule: "one run = one seeded history of 6..40 (quick) / 6..120, occasionally 500..5000 (thorough) operations over boa_gc (alloc with edges, new_cyclic, link/unlink, clone/drop/load handle, weak and ephemeron held by the simulator or stored in a node, weak map new/insert/remove/get/drop, upgrade, read, allocation inside a mutable borrow, finalizer modes incl. resurrection in 1 run of 12, explicit collect) one history in five is a small universe (3 handle slots, 3..8 operations, a collection injected into nearly every allocating operation); of the others one in three starts with a structured motif (a chain of 2..7 ephemerons or weak-map entries whose keys are reachable only through the next link's value, created in forward, reverse or shuffled order, held by the simulator, by the head key or by a weak map, then cut loose); collections are injected at seeded allocation points (first or second allocation point inside the operation); swarm: per-run operation weights and injection rate; non-trivial = an injected collection fired or at least one node was freed; distinct = distinct (history length, number of injection points, hash of executed-operation log and heap counts after each collection)",
    real: &["boa_gc: allocator, collector, Gc, GcRefCell, WeakGc, Ephemeron, WeakMap, derive(Trace)"],
    stub: &["payload type Node (canary, drop and finalize counters)", "collection trigger decision (hook H1)"],
    assumptions: &[
        "allocation inside a finalizer is not generated (the API does not promise it)",
        "a history in which a finalizer makes an object reachable again that the same collection found unreachable is stopped at that collection and reported as class 'finalizer-resurrection' (recorded known finding: the collector frees such an object anyway or leaves it with released handles; continuing would be undefined behaviour)",
        "native runs detect use of a freed node through a canary; the thorough tier replays a sample under Miri for exact detection",
    ],
    nondeterminism_is_violation: false,
    hang_is_violation: true,
};
