//! C20 — evaluation is deterministic and contexts are isolated from each other.
//!
//! Nodes = contexts (and realms inside one context) on one thread; shared medium = the thread's
//! runtime (GC heap and thresholds, code-block and module counters, static strings, symbol
//! counters). Three scenario kinds:
//! * replica : program P before and after a seeded prior history of the thread (other contexts
//!             created, sabotaged, kept or dropped, junk allocations, symbols, collections); the
//!             two event logs must be identical; the harness' audit re-executes a sample of runs in
//!             other processes (different ASLR and hash keys) — a mismatch there is this property's
//!             violation, not a harness error;
//! * contexts: B's host entries and budget yields interleaved by the seeded scheduler with a
//!             sabotaging neighbour context A; oracle = B solo in the same mode and budget;
//! * realms  : the same with two realms of one context, plus cross-realm hand-over checks.

use crate::harness::{Prop, RunReport, Tier};
use crate::js::{self, Host};
use crate::kernels;
use crate::rng::{Fp, Rng};
use boa_engine::{Context, Script, Source, js_string, property::Attribute, realm::Realm};
use serde::{Deserialize, Serialize};
use serde_json::Value;
use std::task::Poll;

#[derive(Serialize, Deserialize, Clone, Debug)]
pub struct Scenario {
    /// "replica" | "contexts" | "realms"
    pub kind: String,
    pub name: String,
    /// the observed program, evaluated part by part in one context / realm
    pub parts: Vec<String>,
    /// the neighbour's programs (sabotage), evaluated part by part
    pub neighbour: Vec<String>,
    /// 0 = synchronous host entries, n = evaluate_async_with_budget(n) for both
    pub budget: u32,
    /// scheduler decisions: which of the runnable things goes next (modulo the number runnable)
    pub decisions: Vec<u32>,
    /// replica: seeded perturbation of the thread before the second replica
    pub junk_allocs: u32,
    pub junk_symbols: u32,
    pub collect_between: bool,
    pub keep_neighbour_alive: bool,
    /// when set, `parts` are the sources of modules m0..m(n-1) and m<entry> is loaded, linked and
    /// evaluated through the simulated loader instead of evaluating the parts as scripts
    #[serde(default)]
    pub module_entry: Option<usize>,
}

pub const SABOTAGE: &[&str] = &[
    "Array.prototype[Symbol.iterator]=function*(){ yield 'poisoned'; }; Array.prototype.map=function(){ return ['hijacked']; }; Array.prototype.push=null; Array.prototype.join=function(){ return 'JOIN'; };",
    "Object.prototype.then=function(r){ r('hijack'); }; Object.prototype.toString=function(){ return 'X'; }; Object.prototype.valueOf=function(){ return 666; }; Object.defineProperty(Object.prototype,'x',{get(){ throw new Error('poisoned getter'); }, configurable:true});",
    "Function.prototype.call=null; Function.prototype.apply=function(){ return 'apply-hijack'; }; Function.prototype.bind=undefined; Function.prototype.toString=function(){ return 'fn'; };",
    "Promise.prototype.then=function(){ return 'no'; }; Promise.resolve=function(){ return 1; }; globalThis.Promise=null;",
    "Object.defineProperty(Array, Symbol.species, {get(){ return function(){ return {length:0}; }; }, configurable:true}); Object.defineProperty(RegExp.prototype, 'exec', {value:function(){ return null; }});",
    "for (var k of Object.getOwnPropertyNames(globalThis)){ try { delete globalThis[k]; } catch(e){} try { globalThis[k]=function(){ return 'G'; }; } catch(e){} }",
    "(function(){ var seen=new Set(); function poison(o,d){ if (!o || (typeof o!='object' && typeof o!='function') || seen.has(o) || d>2) return; seen.add(o); for (var k of Reflect.ownKeys(o)){ var v; try { v=o[k]; } catch(e){} try { Object.defineProperty(o,k,{get(){ return 'P'; }, set(x){}, configurable:true}); } catch(e){ try { o[k]='P'; } catch(e2){} } poison(v,d+1); } try { Object.freeze(o); } catch(e){} } var roots=[Object,Array,Function,String,Number,Boolean,Symbol,Error,TypeError,RangeError,Map,Set,WeakMap,JSON,Math,Reflect,Date,RegExp]; for (var i=0;i<roots.length;i++) poison(roots[i],0); })();",
    "Uint8Array.prototype.__proto__.map=function(){ return 'ta'; }; Object.getPrototypeOf(Int8Array).from=null; ArrayBuffer.prototype.slice=function(){ return 1; }; DataView.prototype.getInt8=null;",
    "globalThis.Error=function(){ return {message:'fake'}; }; TypeError.prototype.name='NotTypeError'; RangeError=undefined; Error.prototype.toString=function(){ return 'E'; };",
    "String.prototype.split=function(){ return ['S']; }; String.prototype.replace=null; Number.prototype.toString=function(){ return 'N'; }; Symbol.prototype.toString=function(){ return 'SYM'; }; Object.defineProperty(String.prototype,'length',{get(){ return 99; }});",
    "Map.prototype.set=function(){ return this; }; Map.prototype.get=function(){ return 'M'; }; Set.prototype.add=null; WeakMap.prototype.get=function(){ return 'W'; }; Map.prototype[Symbol.iterator]=function*(){ yield ['k','v']; };",
    "var junk=[]; for (var i=0;i<400;i++){ junk.push({i:i, s:'x'.repeat(i%17), a:new Array(i%13)}); Symbol('s'+i); Symbol.for('reg'+i); } var wm=new WeakMap(); for (var i=0;i<100;i++) wm.set(junk[i], junk[(i+1)%100]); globalThis.__junk=junk;",
    "for (var i=0;i<50;i++) Promise.resolve(i).then(function(v){ globalThis.__p=(globalThis.__p||0)+v; return new Promise(function(){}); }); (async function(){ for (var i=0;i<200;i++) await null; await new Promise(function(){}); })();",
    "JSON.stringify=function(){ return '{}'; }; JSON.parse=null; Math.max=function(){ return -1; }; Reflect.ownKeys=function(){ return []; }; Object.keys=function(){ return ['K']; }; Object.create=null; Object.getPrototypeOf=function(){ return null; };",
    "Object.setPrototypeOf(Array.prototype, null); Object.setPrototypeOf(Function.prototype, null); Object.setPrototypeOf(Object.getPrototypeOf(function*(){}).prototype, null);",
    "eval('var hoisted=1; function ev(){ return 2; }'); new Function('globalThis.viaFn=3')(); Object.freeze(globalThis); Object.preventExtensions(Object.prototype);",
];

/// Cross-realm behaviour probe, evaluated in realm 2 against objects created in realm 1. The expected
/// answers follow the specification (ArraySpeciesCreate discards a foreign realm's %Array%,
/// SpeciesConstructor / TypedArraySpeciesCreate follow the exemplar's constructor,
/// GetPrototypeFromConstructor falls back to the constructor's own realm, iterator results and
/// errors are created in the realm of the function that creates them, BoundFunctionCreate copies the
/// target's prototype); they were cross-checked at authoring time with V8's `vm` contexts.
const REALM_PROBE: &str = r#"
(function(){ var r=[]; function t(f){ try { r.push(String(f())); } catch(e){ r.push('!'+e.name); } }
var A=fromOther.arr;
t(function(){ return A instanceof Array; }); t(function(){ return Array.isArray(A); }); t(function(){ return Object.getPrototypeOf(A)===Array.prototype; });
t(function(){ return A.map(function(x){ return x; }) instanceof Array; });
t(function(){ return Array.prototype.map.call(A, function(x){ return x; }) instanceof Array; });
t(function(){ return Array.prototype.filter.call(A, function(){ return true; }) instanceof Array; });
t(function(){ return Array.prototype.slice.call(A, 0) instanceof Array; });
t(function(){ return Array.prototype.splice.call(A.slice(), 0, 1) instanceof Array; });
t(function(){ return Array.prototype.concat.call(A, [4]) instanceof Array; });
t(function(){ return Array.prototype.flat.call(A) instanceof Array; });
t(function(){ return Array.prototype.flatMap.call(A, function(x){ return x; }) instanceof Array; });
t(function(){ return Array.prototype.concat.call([0], A).length; });
t(function(){ return Array.from(A) instanceof Array; }); t(function(){ return [...A].length; });
t(function(){ return Array.prototype.map.call(fromOther.sub, function(x){ return x; }) instanceof Array; });
t(function(){ return fromOther.fn(2) instanceof Array; }); t(function(){ return fromOther.fn(2).length; });
t(function(){ try { fromOther.thrower(); } catch(e){ return [e instanceof TypeError, e.constructor.name, Object.getPrototypeOf(e)===TypeError.prototype].join('/'); } });
t(function(){ return fromOther.err instanceof Error; }); t(function(){ return fromOther.err.constructor===Error; }); t(function(){ return Object.prototype.toString.call(fromOther.err); });
t(function(){ return fromOther.inst.hello(); }); t(function(){ return fromOther.inst instanceof Object; });
t(function(){ return fromOther.p instanceof Promise; }); t(function(){ return Promise.resolve(fromOther.p)===fromOther.p; }); t(function(){ return Promise.prototype.then.call(fromOther.p, function(){}) instanceof Promise; });
t(function(){ return Object.prototype.toString.call(A); }); t(function(){ return fromOther.sym===Symbol.for('shared-across-realms'); });
t(function(){ return RegExp.prototype.exec.call(fromOther.re, 'xab')[1]; }); t(function(){ return 'xab'.replace(fromOther.re, '[$1]'); }); t(function(){ return fromOther.re instanceof RegExp; }); t(function(){ return 'abab'.split(fromOther.re) instanceof Array; });
t(function(){ return Map.prototype.get.call(fromOther.map, 1); }); t(function(){ return new Map(fromOther.map).size; }); t(function(){ return fromOther.map instanceof Map; });
t(function(){ return Uint8Array.prototype.slice.call(fromOther.ta, 0) instanceof Uint8Array; }); t(function(){ return Array.prototype.slice.call(fromOther.ta).join(''); }); t(function(){ return new Uint8Array(fromOther.ta).length; });
t(function(){ return fromOther.bound(); }); t(function(){ return new fromOther.NoProto() instanceof Object; }); t(function(){ return Object.getPrototypeOf(Reflect.construct(fromOther.NoProto, [], Object))===Object.prototype; });
t(function(){ return Date.prototype.getTime.call(fromOther.date); }); t(function(){ return fromOther.date instanceof Date; }); t(function(){ return JSON.stringify({d:fromOther.date, a:A}); });
t(function(){ return fromOther.gen.next().value; }); t(function(){ return Object.getPrototypeOf(fromOther.gen.next())===Object.prototype; });
t(function(){ return Function.prototype.call.call(fromOther.fn, null, 1).length; }); t(function(){ return fromOther.fn instanceof Function; }); t(function(){ return typeof fromOther.fn.bind(null); });
t(function(){ return Object.getPrototypeOf(fromOther.fn.bind(null))===Function.prototype; });
print('realm-probe', r.join(' ')); })();
"#;

const REALM_PROBE_EXPECTED: &str = "realm-probe false true false false true true true true true true true 4 true 3 false false 2 false/TypeError/false false false [object Error] hello from r1 false false false false [object Array] true b x[b] false false 2 1 false false 312 3 bound-r1 false true 0 false {\"d\":\"1970-01-01T00:00:00.000Z\",\"a\":[1,[2],3]} 1 false 1 false function false";

const REALM_GIFT: &str = r#"
globalThis.gift={ arr:[1,[2],3], fn:function(n){ return new Array(n).fill(0); }, thrower:function(){ null.x; }, err:new Error('from-r1'), inst:new (class Greeter { hello(){ return 'hello from r1'; } })(), p:Promise.resolve(1), sym:Symbol.for('shared-across-realms'),
  re:/a(b)/g, map:new Map([[1,2]]), ta:new Uint8Array([3,1,2]), bound:(function(){ return this.tag; }).bind({tag:'bound-r1'}), NoProto:(function(){ function F(){} F.prototype=1; return F; })(), date:new Date(0), gen:(function*(){ yield 1; })(), sub:(function(){ class A extends Array {} return A.from([1,2]); })() };
"#;

/// Self-checking census of engine-created objects against the intrinsics of the realm it runs in.
const CENSUS: &str = include_str!("../../../../corpus/c20/census.js");

/// Removes the census lines from `lines`; anything but the two "ok" lines is a violation.
fn check_census(lines: Vec<String>, whom: &str, problems: &mut Vec<String>) {
    let sync = lines.iter().find(|l| l.starts_with("census "));
    let asy = lines.iter().find(|l| l.starts_with("census-async "));
    if !sync.is_some_and(|l| l.starts_with("census ok ")) || !asy.is_some_and(|l| l.starts_with("census-async ok ")) {
        problems.push(format!("{whom}: {lines:?}"));
    }
}

fn census_in_context(ctx: &mut Context, host: &Host, whom: &str, problems: &mut Vec<String>) {
    let mut lines = vec![];
    entry(ctx, host, CENSUS, 0, 0, &mut lines);
    check_census(lines, whom, problems);
}

pub fn generate(rng: &mut Rng, tier: Tier) -> Value {
    if rng.chance(1, 8) {
        // a module graph with top-level await and cycles: module records are address-keyed in several
        // engine tables, the order in which modules run must not depend on where they were allocated
        let c = crate::props::c17::corpus();
        let (name, mods, entry, _, _) = &c[rng.idx(c.len())];
        let parts: Vec<String> = mods.iter().enumerate().map(|(i, m)| crate::props::c17::render(i, m)).collect();
        let nn = rng.range(1, 4) as usize;
        let sc = Scenario {
            kind: "replica".into(),
            name: format!("replica:module-{name}"),
            parts,
            neighbour: (0..nn).map(|_| (*rng.pick(SABOTAGE)).to_string()).collect(),
            budget: 0,
            decisions: vec![],
            junk_allocs: rng.below(3000) as u32,
            junk_symbols: rng.below(300) as u32,
            collect_between: rng.chance(1, 2),
            keep_neighbour_alive: rng.chance(1, 2),
            module_entry: Some(*entry),
        };
        return serde_json::to_value(sc).expect("ser");
    }
    let kind = *rng.pick(&["replica", "replica", "contexts", "contexts", "realms"]);
    let n = rng.range(1, if tier == Tier::Quick { 3 } else { 5 }) as usize;
    let (parts, names) = if rng.chance(1, 4) {
        let h = kernels::harvest();
        let g = &h[rng.idx(h.len())];
        (g.1.clone(), vec![g.0.as_str()])
    } else {
        let kinds = match kind {
            "replica" => "dddsp",
            _ => "dspp",
        };
        // kinds string is used as a multiset to bias towards determinism kernels
        let mut ks = vec![];
        let mut names = vec![];
        for _ in 0..n {
            let c = kinds.as_bytes()[rng.idx(kinds.len())] as char;
            let (k, nm) = kernels::compose(rng, &c.to_string(), 1);
            ks.push(k[0].clone());
            names.push(nm[0]);
        }
        (ks, names)
    };
    let nn = rng.range(1, 4) as usize;
    let neighbour: Vec<String> = (0..nn).map(|_| (*rng.pick(SABOTAGE)).to_string()).collect();
    let sc = Scenario {
        kind: kind.to_string(),
        name: format!("{kind}:{}", names.join("+")),
        parts,
        neighbour,
        budget: if rng.chance(1, 2) { *rng.pick(&[1u32, 2, 3, 7, 20, 100, 256]) } else { 0 },
        decisions: (0..rng.range(4, 40)).map(|_| rng.below(4) as u32).collect(),
        junk_allocs: rng.below(3000) as u32,
        junk_symbols: rng.below(300) as u32,
        collect_between: rng.chance(1, 2),
        keep_neighbour_alive: rng.chance(1, 2),
        module_entry: None,
    };
    serde_json::to_value(sc).expect("ser")
}

fn limits(ctx: &mut Context) {
    let mut rl = boa_engine::vm::RuntimeLimits::default();
    rl.set_loop_iteration_limit(300_000);
    ctx.set_runtime_limits(rl);
}

/// Runs the observed program alone. Returns the event log.
fn run_solo(sc: &Scenario, problems: &mut Vec<String>) -> Vec<String> {
    if let Some(entry) = sc.module_entry {
        use crate::seams::{LoadPlan, SimLoader};
        let loader = std::rc::Rc::new(SimLoader::default());
        for (i, src) in sc.parts.iter().enumerate() {
            loader.sources.borrow_mut().insert(format!("m{i}"), src.clone());
            loader.plans.borrow_mut().insert(format!("m{i}"), LoadPlan { latency: (i % 3) as u32, fault: 0, fault_times: 0 });
        }
        let (mut ctx, host) = js::new_context::<boa_engine::job::SimpleJobExecutor, SimLoader>(None, Some(loader.clone()));
        limits(&mut ctx);
        census_in_context(&mut ctx, &host, "fresh context", problems);
        let mut log = vec![];
        match loader.get_or_parse(&format!("m{entry}"), &mut ctx) {
            Err(e) => log.push(format!("parse {}", js::error_string(&e, &mut ctx))),
            Ok(m) => {
                let p = m.load_link_evaluate(&mut ctx);
                if let Err(e) = ctx.run_jobs() {
                    log.push(format!("jobs:{}", js::error_string(&e, &mut ctx)));
                }
                log.push(format!("state {:?}", std::mem::discriminant(&p.state())));
            }
        }
        log.extend(host.trace.take());
        return log;
    }
    let (mut ctx, host) = js::new_default_context();
    limits(&mut ctx);
    census_in_context(&mut ctx, &host, "fresh context", problems);
    let mut log = vec![];
    for (i, p) in sc.parts.iter().enumerate() {
        entry(&mut ctx, &host, p, sc.budget, i, &mut log);
    }
    log
}

fn entry(ctx: &mut Context, host: &Host, src: &str, budget: u32, i: usize, log: &mut Vec<String>) {
    let r = if budget == 0 {
        ctx.eval(Source::from_bytes(src))
    } else {
        js::eval_budgeted(ctx, src, budget, 5_000_000, |_| {}).0
    };
    let c = js::completion(&r, ctx);
    log.push(format!("#{i} {c}"));
    log.extend(host.trace.take());
    if let Err(e) = ctx.run_jobs() {
        log.push(format!("#{i} jobs:{}", js::error_string(&e, ctx)));
    }
    log.extend(host.trace.take());
    ctx.clear_kept_objects();
}

/// Contexts A (neighbour) and B (observed) alive at once; the scheduler interleaves their host
/// entries and, with a budget, their yield points.
fn run_interleaved(sc: &Scenario, rep: &mut RunReport) -> Vec<String> {
    let (mut b, hb) = js::new_default_context();
    let (mut a, ha) = js::new_default_context();
    limits(&mut b);
    limits(&mut a);
    {
        let mut problems = vec![];
        census_in_context(&mut b, &hb, "context next to a live neighbour", &mut problems);
        for p in problems {
            rep.violate("foreign-intrinsic", format!("{}: {p}", sc.name));
        }
    }
    let mut log = vec![];
    let mut dec = sc.decisions.iter().copied().cycle();
    let (mut ia, mut ib) = (0usize, 0usize);
    if sc.budget == 0 {
        while ib < sc.parts.len() {
            let pick_a = ia < sc.neighbour.len() && dec.next().unwrap_or(0) % 2 == 1;
            if pick_a {
                let mut sink = vec![];
                entry(&mut a, &ha, &sc.neighbour[ia], 0, ia, &mut sink);
                ia += 1;
                rep.fault("ctx.neighbour_entry", 1);
            } else {
                entry(&mut b, &hb, &sc.parts[ib], 0, ib, &mut log);
                ib += 1;
            }
        }
    } else {
        // both evaluations pending at once: A runs between two instructions of B
        while ib < sc.parts.len() {
            let sb = match Script::parse(Source::from_bytes(sc.parts[ib].as_str()), None, &mut b) {
                Ok(s) => s,
                Err(e) => {
                    log.push(format!("#{ib} {}", js::error_string(&e, &mut b)));
                    ib += 1;
                    continue;
                }
            };
            let sa = if ia < sc.neighbour.len() { Script::parse(Source::from_bytes(sc.neighbour[ia].as_str()), None, &mut a).ok() } else { None };
            let rb;
            {
                let mut fb = std::pin::pin!(sb.evaluate_async_with_budget(&mut b, sc.budget));
                let mut fa = sa.as_ref().map(|s| Box::pin(s.evaluate_async_with_budget(&mut a, sc.budget)));
                let mut polls = 0u64;
                loop {
                    polls += 1;
                    let d = dec.next().unwrap_or(0);
                    if let Some(f) = fa.as_mut() {
                        if d % 2 == 1 || polls > 2_000_000 {
                            rep.fault("ctx.neighbour_yield_slice", 1);
                            if let Poll::Ready(_) = js::poll_once(f.as_mut()) {
                                fa = None;
                            }
                            if polls <= 2_000_000 {
                                continue;
                            }
                        }
                    }
                    if let Poll::Ready(r) = js::poll_once(fb.as_mut()) {
                        rb = r;
                        break;
                    }
                    rep.fault("yield", 1);
                    if polls > 6_000_000 {
                        rb = Err(boa_engine::JsNativeError::error().with_message("SIM: poll cap").into());
                        break;
                    }
                }
                // A's evaluation must be driven to completion before its context can be used again
                if let Some(mut f) = fa {
                    let mut n = 0u64;
                    while js::poll_once(f.as_mut()).is_pending() && n < 6_000_000 {
                        n += 1;
                    }
                }
            }
            if sa.is_some() {
                let _ = a.run_jobs();
                ha.trace.take();
                ia += 1;
            }
            let c = js::completion(&rb, &mut b);
            log.push(format!("#{ib} {c}"));
            log.extend(hb.trace.take());
            if let Err(e) = b.run_jobs() {
                log.push(format!("#{ib} jobs:{}", js::error_string(&e, &mut b)));
            }
            log.extend(hb.trace.take());
            b.clear_kept_objects();
            ib += 1;
        }
    }
    log
}

fn install_natives_in_realm(ctx: &mut Context, realm: &Realm, host: &Host) {
    let old = ctx.enter_realm(realm.clone());
    js::install_natives(ctx, host);
    ctx.enter_realm(old);
}

fn eval_in(ctx: &mut Context, realm: &Realm, src: &str) -> String {
    match Script::parse(Source::from_bytes(src), Some(realm.clone()), ctx) {
        Err(e) => js::error_string(&e, ctx),
        Ok(s) => {
            let r = s.evaluate(ctx);
            js::completion(&r, ctx)
        }
    }
}

/// Two realms of one context. `sabotage` = run the neighbour programs in realm 2 between the
/// entries of realm 1.
fn run_realms(sc: &Scenario, sabotage: bool, rep: &mut RunReport) -> Vec<String> {
    let (mut ctx, _h0) = js::new_default_context();
    limits(&mut ctx);
    let r1 = ctx.create_realm().expect("realm");
    let r2 = ctx.create_realm().expect("realm");
    let h1 = Host { trace: js::Trace::default(), weak: js::Trace::default(), ticks: Default::default(), clock: _h0.clock.clone(), hooks: _h0.hooks.clone() };
    let h2 = Host { trace: js::Trace::default(), weak: js::Trace::default(), ticks: Default::default(), clock: _h0.clock.clone(), hooks: _h0.hooks.clone() };
    install_natives_in_realm(&mut ctx, &r1, &h1);
    install_natives_in_realm(&mut ctx, &r2, &h2);
    let mut log = vec![];
    let mut dec = sc.decisions.iter().copied().cycle();
    let mut ia = 0usize;
    // each realm's engine-made objects carry that realm's intrinsics, whichever realm ran first
    for (r, h, whom) in [(&r1, &h1, "realm 1"), (&r2, &h2, "realm 2 (after realm 1 ran the same census)")] {
        let c = eval_in(&mut ctx, r, CENSUS);
        let _ = ctx.run_jobs();
        let mut problems = vec![];
        let mut lines = h.trace.take();
        if !c.starts_with("ok:") {
            lines.push(format!("census completion {c}"));
        }
        check_census(lines, whom, &mut problems);
        for p in problems {
            rep.violate("foreign-intrinsic", format!("{}: {p}", sc.name));
        }
    }
    // hand-over: objects created in realm 1 are installed on realm 2's global
    log.push(format!("gift {}", eval_in(&mut ctx, &r1, REALM_GIFT)));
    {
        let old = ctx.enter_realm(r1.clone());
        let gift = ctx.global_object().get(js_string!("gift"), &mut ctx).unwrap_or_default();
        ctx.enter_realm(old);
        // identity against realm 1's intrinsics, checked host-side
        if let Some(g) = gift.as_object() {
            let arr = g.get(js_string!("arr"), &mut ctx).unwrap_or_default();
            let ok_arr = arr.as_object().is_some_and(|a| a.prototype() == Some(r1.intrinsics().constructors().array().prototype()));
            let ok_not_r2 = arr.as_object().is_some_and(|a| a.prototype() != Some(r2.intrinsics().constructors().array().prototype()));
            let err = g.get(js_string!("err"), &mut ctx).unwrap_or_default();
            let ok_err = err.as_object().is_some_and(|e| e.prototype() == Some(r1.intrinsics().constructors().error().prototype()));
            let p = g.get(js_string!("p"), &mut ctx).unwrap_or_default();
            let ok_p = p.as_object().is_some_and(|e| e.prototype() == Some(r1.intrinsics().constructors().promise().prototype()));
            log.push(format!("host-identity arr={ok_arr} not-r2={ok_not_r2} err={ok_err} promise={ok_p}"));
            if !(ok_arr && ok_not_r2 && ok_err && ok_p) {
                rep.violate("cross-realm-intrinsics", format!("{}: objects handed to another realm lost their own realm's intrinsics: {:?}", sc.name, log.last()));
            }
        }
        let _ = r2.register_property(js_string!("fromOther"), gift, Attribute::all(), &mut ctx);
    }
    for (i, p) in sc.parts.iter().enumerate() {
        while sabotage && ia < sc.neighbour.len() && dec.next().unwrap_or(0) % 2 == 1 {
            let _ = eval_in(&mut ctx, &r2, &sc.neighbour[ia]);
            let _ = ctx.run_jobs();
            h2.trace.take();
            ia += 1;
            rep.fault("ctx.sabotage_other_realm", 1);
        }
        let c = eval_in(&mut ctx, &r1, p);
        log.push(format!("#{i} {c}"));
        log.extend(h1.trace.take());
        if let Err(e) = ctx.run_jobs() {
            log.push(format!("#{i} jobs:{}", js::error_string(&e, &mut ctx)));
        }
        log.extend(h1.trace.take());
        ctx.clear_kept_objects();
    }
    // realm 2 looks at the objects from realm 1 before it sabotages itself any further
    if !sabotage {
        log.push(format!("probe {}", eval_in(&mut ctx, &r2, REALM_PROBE)));
        log.extend(h2.trace.take());
    }
    // whatever realm 2 did to its own built-ins, realm 1's objects behave as before
    log.push(format!(
        "after {}",
        eval_in(&mut ctx, &r1, "print('r1-still', gift.arr.map(function(x){ return x+1; }).join(';'), gift.fn(2).length, gift.inst.hello(), [3,1,2].sort().join(''), JSON.stringify({a:[1]}), typeof Promise.resolve, String(Symbol('q')), Object.keys({k:1}).join(''));")
    ));
    log.extend(h1.trace.take());
    log
}

fn perturb(sc: &Scenario, rep: &mut RunReport) -> Option<(Context, Host)> {
    // a sabotaged neighbour context, junk allocations of varying sizes, symbols, optional collection
    let (mut a, ha) = js::new_default_context();
    limits(&mut a);
    for (i, p) in sc.neighbour.iter().enumerate() {
        let mut sink = vec![];
        entry(&mut a, &ha, p, 0, i, &mut sink);
        rep.fault("ctx.sabotage", 1);
    }
    let junk = format!(
        "var j=[]; for (var i=0;i<{};i++) j.push(i%3 ? {{i:i, s:'p'+i}} : new Array(i%29)); for (var i=0;i<{};i++) {{ Symbol('j'+i); Symbol.for('jr'+i); }} j.length",
        sc.junk_allocs, sc.junk_symbols
    );
    let (mut c, _hc) = js::new_default_context();
    limits(&mut c);
    let _ = c.eval(Source::from_bytes(junk.as_str()));
    rep.fault("thread.junk_history", 1);
    if sc.collect_between {
        boa_gc::verif::collect_now();
        rep.fault("gc.between_replicas", 1);
    }
    if sc.keep_neighbour_alive { Some((a, ha)) } else { None }
}

pub fn execute(v: &Value) -> RunReport {
    let sc: Scenario = serde_json::from_value(v.clone()).expect("scenario");
    let mut rep = RunReport::default();
    boa_gc::verif::set_policy(None);
    let mut fp = Fp::default();
    match sc.kind.as_str() {
        "replica" => {
            let mut problems = vec![];
            let r1 = run_solo(&sc, &mut problems);
            let keep = perturb(&sc, &mut rep);
            let r2 = run_solo(&sc, &mut problems);
            drop(keep);
            for p in problems {
                rep.violate("foreign-intrinsic", format!("{}: {p}", sc.name));
            }
            rep.execs = 2;
            if r1 != r2 {
                let at = r1.iter().zip(r2.iter()).position(|(a, b)| a != b).unwrap_or(r1.len().min(r2.len()));
                rep.violate(
                    "replica-divergence",
                    format!("{}: item {at}: first replica {:?}, after prior history {:?}", sc.name, r1.get(at), r2.get(at)),
                );
            }
            for l in &r1 {
                fp.add(l);
            }
        }
        "contexts" => {
            let mut problems = vec![];
            let solo = run_solo(&sc, &mut problems);
            for p in problems {
                rep.violate("foreign-intrinsic", format!("{}: {p}", sc.name));
            }
            let inter = run_interleaved(&sc, &mut rep);
            rep.execs = 3;
            if solo != inter {
                let at = solo.iter().zip(inter.iter()).position(|(a, b)| a != b).unwrap_or(solo.len().min(inter.len()));
                rep.violate(
                    "isolation-divergence",
                    format!("{} budget {}: item {at}: solo {:?}, next to a sabotaging context {:?}", sc.name, sc.budget, solo.get(at), inter.get(at)),
                );
            }
            for l in &solo {
                fp.add(l);
            }
        }
        _ => {
            let calm = run_realms(&sc, false, &mut rep);
            let sab = run_realms(&sc, true, &mut rep);
            rep.execs = 2;
            // compare everything except the probe line that only the calm run has
            let strip = |l: &Vec<String>| l.iter().filter(|x| !x.starts_with("probe ") && !x.starts_with("realm-probe")).cloned().collect::<Vec<_>>();
            let (c2, s2) = (strip(&calm), strip(&sab));
            if c2 != s2 {
                let at = c2.iter().zip(s2.iter()).position(|(a, b)| a != b).unwrap_or(c2.len().min(s2.len()));
                rep.violate(
                    "realm-isolation-divergence",
                    format!("{}: item {at}: calm {:?}, with the other realm sabotaging itself {:?}", sc.name, c2.get(at), s2.get(at)),
                );
            }
            let expected_probe = REALM_PROBE_EXPECTED;
            if let Some(p) = calm.iter().find(|l| l.starts_with("realm-probe")) {
                if p != expected_probe {
                    rep.violate("cross-realm-behaviour", format!("{}: {p:?}, expected {expected_probe:?}", sc.name));
                }
            } else {
                rep.violate("cross-realm-behaviour", format!("{}: probe did not run: {:?}", sc.name, calm.iter().find(|l| l.starts_with("probe "))));
            }
            for l in &calm {
                fp.add(l);
            }
        }
    }
    rep.fingerprint = fp.0;
    let mut sfp = Fp::default();
    sfp.add(&sc.kind);
    sfp.add(&format!("{:?}{}{}{}", sc.decisions, sc.budget, sc.junk_allocs, sc.neighbour.len()));
    rep.sched_fp = sfp.0;
    rep.nontrivial = rep.faults.values().sum::<u64>() > 0;
    rep.shape = sc.name.clone();
    rep.steps = sc.parts.len() as u64;
    rep
}

pub fn shrink(v: &Value) -> Vec<Value> {
    let sc: Scenario = serde_json::from_value(v.clone()).expect("scenario");
    let mut out = vec![];
    for i in 0..sc.parts.len() {
        if sc.parts.len() > 1 && sc.module_entry.is_none() {
            let mut s = sc.clone();
            s.parts.remove(i);
            out.push(s);
        }
    }
    for i in 0..sc.neighbour.len() {
        if sc.neighbour.len() > 1 {
            let mut s = sc.clone();
            s.neighbour.remove(i);
            out.push(s);
        }
    }
    if sc.budget != 0 {
        let mut s = sc.clone();
        s.budget = 0;
        out.push(s);
    }
    if sc.junk_allocs > 0 || sc.junk_symbols > 0 {
        let mut s = sc.clone();
        s.junk_allocs = 0;
        s.junk_symbols = 0;
        out.push(s);
    }
    if sc.parts.len() == 1 {
        let lines: Vec<&str> = sc.parts[0].lines().collect();
        for i in 0..lines.len() {
            if lines.len() > 1 {
                let mut l = lines.clone();
                l.remove(i);
                let mut s = sc.clone();
                s.parts[0] = l.join("\n");
                out.push(s);
            }
        }
    }
    out.into_iter().map(|s| serde_json::to_value(s).expect("ser")).collect()
}

pub const PROP: Prop = Prop {
    id: "C20",
    level: "exploration",
    runs_quick: 20_000,
    runs_thorough: 300_000,
    generate,
    execute,
    shrink,
    rule: "one run = one of three scenario kinds: replica (program = 1..3 kernels biased to the six determinism kernels — key enumeration, Map/Set order, sort stability, error and function texts, identity, number formatting — or a harvested test group, or — 1 run in 8 — one of C17's committed module graphs with top-level await loaded through the simulated loader; run in a fresh context, then again after a seeded prior history of the thread: 1..4 sabotage programs in another context kept or dropped, 0..3000 junk allocations, 0..300 symbols, optional collection), contexts (the program's host entries and, with a budget of 1..256, its yield points interleaved by a seeded decision vector with 1..4 of 16 sabotage programs running in a neighbour context; oracle = the program alone in the same mode) and realms (two realms of one context, realm 2 sabotaging itself between realm 1's entries, plus hand-over of an array, function, error, class instance, promise and registered symbol from realm 1 to realm 2 with host-side identity checks against realm.intrinsics()); a 2 % sample of runs is re-executed in other processes and any difference is this property's violation; non-trivial = a neighbour entry, yield slice, sabotage or junk history fired; distinct = distinct (scenario kind, program, decision vector, budget, junk size)",
    real: &["lexer/parser/compiler/VM/builtins", "Context, Realm, intrinsics, shapes", "boa_gc (shipped trigger)", "SimpleJobExecutor"],
    stub: &["SimClock (fixed)", "SimHooks (fixed time zone)", "print native"],
    assumptions: &[
        "Symbol.for is shared across realms by specification and excluded from the 'shares nothing' demand",
        "programs do not use Math.random; Date reads the simulated clock",
    ],
    nondeterminism_is_violation: true,
    hang_is_violation: true,
};
