//! C16 — promise jobs run in spec FIFO order; results do not depend on scheduling.
//!
//! One program is run under several host schedules that the seams allow:
//! M0 `evaluate` + `run_jobs` on the real SimpleJobExecutor (behind the Recording shim);
//! M1 `evaluate_async_with_budget(b)` polled by the simulator with environment actions between
//!    polls, then `run_jobs_async` polled the same way;
//! M2 stub `SimExecutor`: strict FIFO, seeded batch boundaries, the host calls it until empty.
//! Oracles: traces equal across schedules; executor-seam monitor (FIFO, exactly once, empty
//! stack); committed litmus expectations (spec order incl. tick counts).

use crate::harness::{Prop, RunReport, Tier};
use crate::js;
use crate::kernels;
use crate::rng::{Fp, Rng};
use crate::seams::{Recording, SimExecutor, check_job_log};
use boa_engine::{Source, job::JobExecutor, module::IdleModuleLoader};
use serde::{Deserialize, Serialize};
use serde_json::Value;
use std::cell::RefCell;
use std::rc::Rc;
use std::task::Poll;

#[derive(Serialize, Deserialize, Clone, Debug)]
pub enum Sched {
    Sync,
    /// budget; collect at every n-th yield (0 = never)
    Budget { budget: u32, gc_every_yield: u32 },
    /// batch sizes of successive `run_jobs` calls of the stub executor
    Sim { batches: Vec<u32> },
}

#[derive(Serialize, Deserialize, Clone, Debug)]
pub struct Scenario {
    pub name: String,
    /// evaluated one after the other in the same context, jobs drained after each
    pub parts: Vec<String>,
    pub expected: Option<Vec<String>>,
    pub scheds: Vec<Sched>,
}

fn parse_expectations(text: &str) -> Vec<(String, String, Vec<String>)> {
    {
        let v: Value = serde_json::from_str(text).expect("expectation file parses");
        v["programs"]
            .as_array()
            .expect("programs")
            .iter()
            .map(|p| {
                (
                    p["name"].as_str().unwrap_or("").to_string(),
                    p["src"].as_str().unwrap_or("").to_string(),
                    p["expected"].as_array().expect("expected").iter().map(|s| s.as_str().unwrap_or("").to_string()).collect(),
                )
            })
            .collect()
    }
}

pub fn litmus() -> &'static Vec<(String, String, Vec<String>)> {
    use std::sync::OnceLock;
    static L: OnceLock<Vec<(String, String, Vec<String>)>> = OnceLock::new();
    L.get_or_init(|| parse_expectations(include_str!("../../../../corpus/c16/litmus.json")))
}

/// Grammar-generated promise / async programs (tools/gen_c16_programs.py) with committed traces.
pub fn generated() -> &'static Vec<(String, String, Vec<String>)> {
    use std::sync::OnceLock;
    static L: OnceLock<Vec<(String, String, Vec<String>)>> = OnceLock::new();
    L.get_or_init(|| {
        let mut v = parse_expectations(include_str!("../../../../corpus/c16/generated.json"));
        v.extend(parse_expectations(include_str!("../../../../corpus/c16/generated2.json")));
        v
    })
}

/// The kernel instantiations that the litmus file contains expectations for.
pub fn litmus_kernel_sources() -> Vec<(String, String)> {
    let mut out = vec![];
    for k in kernels::by_kind("p") {
        for seed in 1..=3u64 {
            let mut rng = Rng::new(seed);
            out.push((format!("{}#{seed}", k.name), kernels::instantiate(k, &mut rng)));
        }
    }
    out
}

const BUDGETS: &[u32] = &[1, 2, 3, 5, 8, 13, 21, 34, 55, 89, 144, 233, 377, 610, 987, 1597, 4181, 17711, 121393, 1_048_576];

pub fn generate(rng: &mut Rng, tier: Tier) -> Value {
    let l = litmus();
    if rng.chance(3, 10) {
        // budget sweep over synchronous programs: every opcode of the second (budgeted) dispatch
        // table that these programs reach, with the budget running out at seeded positions
        let (name, parts) = if rng.chance(1, 2) {
            let h = kernels::harvest();
            let g = &h[rng.idx(h.len())];
            (format!("harvest:{}", g.0), g.1.clone())
        } else {
            let nk = rng.range(1, 2) as usize;
            let (ks, names) = kernels::compose(rng, "sd", nk);
            (format!("kernels:{}", names.join("+")), ks)
        };
        let n = if tier == Tier::Quick { 5 } else { 10 };
        let scheds = (0..n)
            .map(|i| Sched::Budget {
                budget: if i == 0 { *rng.pick(BUDGETS) } else { rng.range(1, 64) as u32 },
                gc_every_yield: *rng.pick(&[0u32, 0, 0, 7]),
            })
            .collect();
        return serde_json::to_value(Scenario { name, parts, expected: None, scheds }).expect("ser");
    }
    let (name, parts, expected) = if rng.chance(3, 5) {
        let g = generated();
        let (n, s, e) = if rng.chance(1, 4) { &l[rng.idx(l.len())] } else { &g[rng.idx(g.len())] };
        (n.clone(), vec![s.clone()], Some(e.clone()))
    } else {
        let n = rng.range(1, 3) as usize;
        let (mut ks, mut names) = kernels::compose(rng, "p", n);
        if rng.chance(1, 2) {
            let (s, sn) = kernels::compose(rng, "s", 1);
            let at = rng.idx(ks.len() + 1);
            ks.insert(at, s[0].clone());
            names.insert(at, sn[0]);
        }
        let parts = if rng.chance(1, 2) { ks } else { vec![ks.concat()] };
        (format!("kernels:{}", names.join("+")), parts, None)
    };
    let n_sched = if tier == Tier::Quick { 4 } else { 8 };
    let mut scheds = vec![];
    for _ in 0..n_sched {
        scheds.push(match rng.below(5) {
            0 | 1 => Sched::Budget { budget: *rng.pick(BUDGETS), gc_every_yield: *rng.pick(&[0u32, 0, 1, 5]) },
            2 => Sched::Budget { budget: rng.range(1, 400) as u32, gc_every_yield: *rng.pick(&[0u32, 3]) },
            _ => Sched::Sim { batches: (0..rng.range(1, 12)).map(|_| rng.range(0, 6) as u32).collect() },
        });
    }
    serde_json::to_value(Scenario { name, parts, expected, scheds }).expect("ser")
}

struct Out {
    trace: Vec<String>,
    problems: Vec<(String, String)>,
    yields: u64,
    gc: u64,
    batch_splits: u64,
    jobs: u64,
    drains: u64,
}

fn run_sched(sc: &Scenario, s: &Sched) -> Out {
    let mut out = Out { trace: vec![], problems: vec![], yields: 0, gc: 0, batch_splits: 0, jobs: 0, drains: 0 };
    match s {
        Sched::Sync | Sched::Budget { .. } => {
            let exec = Rc::new(Recording::default());
            let (mut ctx, host) = js::new_context::<Recording, IdleModuleLoader>(Some(exec.clone()), None);
            let mut bailed = false;
            for (i, part) in sc.parts.iter().enumerate() {
                let (r, jr) = match s {
                    Sched::Sync => {
                        let r = ctx.eval(Source::from_bytes(part.as_str()));
                        let jr = ctx.run_jobs();
                        (r, jr)
                    }
                    Sched::Budget { budget, gc_every_yield } => {
                        let mut gcs = 0u64;
                        let g = *gc_every_yield;
                        let (r, y) = js::eval_budgeted(&mut ctx, part, *budget, 20_000_000, |n| {
                            if g > 0 && n % u64::from(g) == 0 && gcs < 5000 {
                                boa_gc::verif::collect_now();
                                gcs += 1;
                            }
                        });
                        out.yields += y;
                        // drain asynchronously, polled by the simulator
                        let jr = {
                            let cell = RefCell::new(&mut ctx);
                            let mut fut = std::pin::pin!(exec.clone().run_jobs_async(&cell));
                            let mut polls = 0u64;
                            loop {
                                match js::poll_once(fut.as_mut()) {
                                    Poll::Ready(r) => break r,
                                    Poll::Pending => {
                                        polls += 1;
                                        out.yields += 1;
                                        if g > 0 && polls % u64::from(g) == 0 && gcs < 5000 {
                                            boa_gc::verif::collect_now();
                                            gcs += 1;
                                        }
                                        if polls > 5_000_000 {
                                            break Err(boa_engine::JsNativeError::error().with_message("SIM: drain poll cap").into());
                                        }
                                    }
                                }
                            }
                        };
                        out.gc += gcs;
                        (r, jr)
                    }
                    Sched::Sim { .. } => unreachable!(),
                };
                out.drains += 1;
                let c = js::completion(&r, &mut ctx);
                out.trace.push(format!("#{i} {}", if c.starts_with("ok:") { "ok".to_string() } else { c }));
                if let Err(e) = &jr {
                    bailed = true;
                    out.trace.push(format!("#{i} jobs:{}", js::error_string(e, &mut ctx)));
                }
                out.trace.extend(host.trace.take());
            }
            let log = exec.log.borrow();
            out.jobs = log.len() as u64 / 2;
            out.problems = check_job_log(&log, bailed);
        }
        Sched::Sim { batches } => {
            let exec = Rc::new(SimExecutor::default());
            *exec.batches.borrow_mut() = batches.iter().copied().collect();
            let (mut ctx, host) = js::new_context::<SimExecutor, IdleModuleLoader>(Some(exec.clone()), None);
            let mut bailed = false;
            for (i, part) in sc.parts.iter().enumerate() {
                let r = ctx.eval(Source::from_bytes(part.as_str()));
                let c = js::completion(&r, &mut ctx);
                out.trace.push(format!("#{i} {}", if c.starts_with("ok:") { "ok".to_string() } else { c }));
                // "drained once or in several calls": call until empty
                let mut calls = 0;
                loop {
                    let jr = ctx.run_jobs();
                    calls += 1;
                    out.drains += 1;
                    if let Err(e) = &jr {
                        bailed = true;
                        out.trace.push(format!("#{i} jobs:{}", js::error_string(e, &mut ctx)));
                        break;
                    }
                    if exec.is_empty() {
                        break;
                    }
                    if calls > 100_000 {
                        out.problems.push(("no-progress".into(), "executor not empty after 100000 run_jobs calls".into()));
                        break;
                    }
                }
                out.trace.extend(host.trace.take());
            }
            out.batch_splits = exec.batch_splits.get();
            let log = exec.log.borrow();
            out.jobs = log.len() as u64 / 2;
            out.problems = check_job_log(&log, bailed);
        }
    }
    out
}

pub fn execute(v: &Value) -> RunReport {
    let sc: Scenario = serde_json::from_value(v.clone()).expect("scenario");
    let mut rep = RunReport::default();
    let m0 = run_sched(&sc, &Sched::Sync);
    rep.execs = 1;
    for (c, d) in &m0.problems {
        rep.violate(c.clone(), format!("{} [sync, real executor]: {d}", sc.name));
    }
    if let Some(exp) = &sc.expected {
        let got: Vec<&String> = m0.trace.iter().filter(|l| !l.starts_with('#')).collect();
        if got.iter().map(|s| s.as_str()).collect::<Vec<_>>() != exp.iter().map(String::as_str).collect::<Vec<_>>() {
            rep.violate("spec-order", format!("{}: expected {:?}, got {:?}", sc.name, exp, got));
        }
        rep.probe("litmus_checked", 1);
    }
    let mut fp = Fp::default();
    let mut sfp = Fp::default();
    for l in &m0.trace {
        fp.add(l);
    }
    for s in &sc.scheds {
        let o = run_sched(&sc, s);
        rep.execs += 1;
        if o.trace != m0.trace {
            let at = o.trace.iter().zip(m0.trace.iter()).position(|(a, b)| a != b).unwrap_or(o.trace.len().min(m0.trace.len()));
            rep.violate(
                "schedule-divergence",
                format!("{} under {s:?}: item {at}: {:?} vs synchronous {:?}", sc.name, o.trace.get(at), m0.trace.get(at)),
            );
        }
        for (c, d) in &o.problems {
            rep.violate(c.clone(), format!("{} under {s:?}: {d}", sc.name));
        }
        rep.fault("yield", o.yields);
        rep.fault("gc.at_yield", o.gc);
        rep.fault("exec.batch_split", o.batch_splits);
        rep.probe("promise_jobs_run", o.jobs);
        rep.probe("drain_calls", o.drains);
        rep.steps += o.jobs;
        sfp.add(&format!("{s:?}"));
        sfp.add_u64(o.yields);
        sfp.add_u64(o.batch_splits);
    }
    rep.fingerprint = fp.0;
    rep.sched_fp = sfp.0;
    rep.nontrivial = rep.faults.values().sum::<u64>() > 0;
    rep.shape = sc.name.clone();
    rep
}

pub fn shrink(v: &Value) -> Vec<Value> {
    let sc: Scenario = serde_json::from_value(v.clone()).expect("scenario");
    let mut out = vec![];
    for i in 0..sc.scheds.len() {
        if sc.scheds.len() > 1 {
            let mut s = sc.clone();
            s.scheds = vec![sc.scheds[i].clone()];
            out.push(s);
        }
    }
    for i in 0..sc.parts.len() {
        if sc.parts.len() > 1 {
            let mut s = sc.clone();
            s.parts.remove(i);
            s.expected = None;
            out.push(s);
        }
    }
    if sc.parts.len() == 1 && sc.expected.is_none() {
        let lines: Vec<&str> = sc.parts[0].lines().collect();
        for i in 0..lines.len() {
            if lines.len() > 1 {
                let mut l = lines.clone();
                l.remove(i);
                let mut s = sc.clone();
                s.parts[0] = l.join("\n");
                out.push(s);
            }
        }
    }
    out.into_iter().map(|s| serde_json::to_value(s).expect("ser")).collect()
}

pub const PROP: Prop = Prop {
    id: "C16",
    level: "exploration",
    runs_quick: 12_000,
    runs_thorough: 200_000,
    generate,
    execute,
    shrink,
    rule: "one run = (7 of 10) one program (one of 29 hand-written litmus programs or of 2493 grammar-generated promise / async / async-generator programs — 2..5 racing tasks built from then/catch/finally chains, thenables (eager, lazy, late, double-settling, throwing, nested), nested resolution, combinators, async functions, for-await with break / continue / throw / return over async generators, custom async and sync iterators, async generators with awaiting / yielding / returning finally blocks driven by queued next/return/throw, yield* over arrays, generators and custom iterators, promise subclasses and own `then` / `constructor` overrides, deferred settlement — each with its committed expected trace, or 1..3 promise/async kernels plus optionally a synchronous one, as one evaluation or split across evaluations with the same drain points) executed synchronously on the real SimpleJobExecutor and under 4 (quick) / 8 (thorough) seeded host schedules: evaluate_async_with_budget with budgets from the Fibonacci grid 1..2^20 or uniform 1..400, polled by the simulator with collections at seeded yields, followed by run_jobs_async polled the same way; or the stub FIFO executor with seeded batch boundaries (0..6 jobs per run_jobs call, called until empty); or (3 of 10) a budget sweep: a synchronous kernel composition or a harvested test group evaluated under 5 (quick) / 10 (thorough) budgets drawn from 1..64 and the Fibonacci grid, each compared with the synchronous evaluation; non-trivial = at least one yield, collection or batch split happened; distinct = distinct (program, schedule list, yields, batch splits)",
    real: &["lexer/parser/compiler/VM incl. the budgeted dispatch table", "promise machinery, async functions/generators", "SimpleJobExecutor (behind the Recording shim) in the synchronous and budgeted schedules"],
    stub: &["SimExecutor (host side of the JobExecutor seam: FIFO, scripted batch boundaries)", "Recording shim (re-boxes promise jobs to log enqueue/run)", "SimClock, SimHooks, print native"],
    assumptions: &[
        "only promise jobs are order-constrained by the specification; programs use no timers and no host async jobs",
        "litmus expectations follow the specification's job-enqueue rules and were cross-checked at authoring time with V8 (node v20, not part of the listed tooling, never invoked by a check)",
    ],
    nondeterminism_is_violation: false,
    hang_is_violation: true,
};
