//! C06 — inline caches are semantically transparent.
//!
//! Scenario: a pool of objects and prototype chains, a set of access sites (each with its own
//! inline cache), and a history of mutations; after every mutation every site is executed
//! against every object and the results are printed. Configurations of one scenario:
//! REF (cache forced off through hook H3), ON (production), BUG (seeded coin per access:
//! forced miss / skipped fill, so a site's cache was warmed by an arbitrary subset of the
//! shapes it saw), each optionally under a collection schedule (cache entries hold weak shapes).
//! Oracle: every configuration prints what REF prints.

use crate::harness::{Prop, RunReport, Tier};
use crate::js::{self, GcPolicy};
use crate::rng::{Fp, Rng};
use boa_engine::Source;
use boa_engine::verif::{IcEvent, set_ic_policy, take_ic_stats};
use serde::{Deserialize, Serialize};
use serde_json::Value;

#[derive(Serialize, Deserialize, Clone, Debug)]
pub struct Scenario {
    /// defines prototypes, the object pool `objs`, helper `show`
    pub setup: String,
    /// access-site definitions, one per entry: "name|source"
    pub sites: Vec<String>,
    /// mutation history, one JavaScript statement (or a few) per step
    pub ops: Vec<String>,
    /// seed and per-mille rates of the buggified configuration
    pub bug_seed: u64,
    pub miss_per_mille: u32,
    pub skip_per_mille: u32,
    /// collection schedule for the GC configurations: 0 = between steps only
    pub gc_every: u64,
    /// per site: indices (into objs ++ prims) of the receivers the site is run against; empty = all.
    /// A cache holds 4 shapes and turns megamorphic (off, for good) at the fifth, so most sites see
    /// only a few receivers.
    #[serde(default)]
    pub recv: Vec<Vec<u32>>,
}

const NAMES: &[&str] = &["a", "b", "c", "x", "y", "pa", "pb", "pc", "acc", "m"];
const GLOBALS: &[&str] = &["ga", "gb", "gc1"];

const SETUP: &str = r#"
function show(v){ var t=typeof v; if (t=='function') return 'fn:'+v.name; if (t=='object') return v===null ? 'null' : (Array.isArray(v) ? 'arr'+v.length : 'obj'); if (t=='symbol') return 'sym'; return t[0]+':'+String(v); }
var P0={pa:1, pb:2, m(){ return 'P0.m'; }};
var P1=Object.create(P0); P1.pc=3; P1.a='P1.a';
class C { constructor(){ this.x=1; this.y=2; } get acc(){ return 'C.acc:'+this.x; } set acc(v){ this._acc=v; } m(){ return 'C.m:'+this.y; } static sx(){ return 'C.sx'; } }
class D extends C { constructor(){ super(); this.c='D.c'; } m(){ return 'D>'+super.m(); } sg(){ return super.acc; } }
var ga=1; globalThis.gb=2;
var objs=[ {a:1,b:2}, {a:1,b:2}, {b:2,a:1}, Object.create(P0), Object.create(P1), new C(), new C(), new D(), [1,2,3], function fobj(){}, Object.create(null), (function(){ return arguments; })(1,2) ];
objs[3].x='o3.x'; objs[4].b='o4.b';
// receivers with unique (dictionary) shapes: builtin namespace / prototype objects and a user object pushed into dictionary mode
var dict={}; for (var i=0;i<1100;i++){ dict['t'+i]=i; } for (var i=0;i<1100;i++){ delete dict['t'+i]; } dict.a='dict.a';
class MyArr extends Array { get acc(){ return 'MyArr.acc:'+this.length; } }
objs.push(Math, Array.prototype, dict, globalThis, MyArr.from([7,8]));
function receiversOf(i, all){ var r=(typeof recv=='object' && recv[i] && recv[i].length) ? recv[i] : null; return r ? r.map(function(k){ return all[k]; }) : all; }
function warm(){ var all=objs.concat(prims); for (var i=0;i<sites.length;i++){ var rs=receiversOf(i, all); for (var j=0;j<rs.length;j++){ try { sites[i][1](rs[j]); } catch(e){} } } }
var prims=[5, 'str', true, 10n, Symbol.iterator];
"#;

fn site_defs(rng: &mut Rng) -> Vec<String> {
    let mut out = vec![];
    let n = rng.range(4, 10);
    for k in 0..n {
        let nm = *rng.pick(NAMES);
        let g = *rng.pick(GLOBALS);
        let def = match rng.below(15) {
            0..=3 => format!("get_{nm}_{k}|function(o){{ return show(o.{nm}); }}"),
            4 | 5 => format!("set_{nm}_{k}|function(o){{ o.{nm}='w{k}'; return show(o.{nm}); }}"),
            6 => format!("call_{nm}_{k}|function(o){{ return show(o.{nm}()); }}"),
            7 => format!("compound_{nm}_{k}|function(o){{ o.{nm}+=1; return show(o.{nm}); }}"),
            8 => format!("opt_{nm}_{k}|function(o){{ return show(o?.{nm}); }}"),
            9 => format!("gread_{g}_{k}|function(o){{ return show(typeof {g}=='undefined' ? 'undef' : {g}); }}"),
            10 => format!("gwrite_{g}_{k}|function(o){{ {g}=(typeof {g}=='number' ? {g}+1 : 0); return show({g}); }}"),
            11 => format!("len_{k}|function(o){{ return show(o.length); }}"),
            12 => format!("sset_{nm}_{k}|function(o){{ 'use strict'; o.{nm}='s{k}'; return show(o.{nm}); }}"),
            13 => format!("gthis_{nm}_{k}|function(o){{ var v=o.{nm}; return show(v)+'/'+(typeof o); }}"),
            _ => format!("delget_{nm}_{k}|function(o){{ var had=('{nm}' in Object(o)); return show(o.{nm})+(had?'+':'-'); }}"),
        };
        out.push(def);
    }
    out.push("super_m|function(o){ return show(o.sg ? o.sg() : 'nosg'); }".to_string());
    out
}

fn gen_op(rng: &mut Rng, site_names: &[&'static str], hot: &[u32]) -> String {
    if rng.chance(1, 14) {
        return "RESITE".to_string();
    }
    // mostly an object that some site is run against; one mutation in four targets a unique-shape
    // (dictionary-mode) receiver: Math, Array.prototype, the dictionary object, the global object
    let o = if !hot.is_empty() && rng.chance(1, 2) {
        format!("objs[{}]", rng.pick(hot))
    } else if rng.chance(1, 2) {
        format!("objs[{}]", rng.range(12, 15))
    } else {
        format!("objs[{}]", rng.below(17))
    };
    let p = *rng.pick(&["P0", "P1", "C.prototype", "D.prototype", "Object.prototype", "Array.prototype", "Function.prototype"]);
    let target = if rng.chance(1, 2) { o.clone() } else { p.to_string() };
    // mostly the names that this scenario's access sites actually use
    let nm = if !site_names.is_empty() && rng.chance(3, 4) { *rng.pick(site_names) } else { *rng.pick(NAMES) };
    let g = *rng.pick(GLOBALS);
    let v = rng.below(100);
    match rng.below(46) {
        0..=2 => format!("{target}.{nm}={v};"),
        3 | 4 => format!("delete {target}.{nm};"),
        5 => format!("Object.defineProperty({target},'{nm}',{{get(){{ return 'getter{v}'; }}, configurable:true, enumerable:true}});"),
        6 => format!("Object.defineProperty({target},'{nm}',{{value:{v}, writable:false, configurable:true, enumerable:false}});"),
        7 => format!("Object.defineProperty({target},'{nm}',{{set(x){{ this._s{v}=x; }}, get(){{ return 'gs{v}'; }}, configurable:true}});"),
        8 => format!("delete {p}.{nm}; {p}.{nm}='moved{v}';"),
        9 => format!("{p}.z{v}=1; delete {p}.{nm};"),
        10 => format!("Object.setPrototypeOf({o}, {});", rng.pick(&["P0", "P1", "null", "C.prototype", "D.prototype", "Object.prototype"])),
        11 => format!("Object.{}({target});", rng.pick(&["preventExtensions", "seal", "freeze"])),
        // (loop counters are function-local: a frozen global object makes a global `var i` read-only
        // and such a loop would never end)
        12 => format!("(function(){{ for (let i=0;i<40;i++) {o}['d'+i]=i; for (let i=0;i<40;i++) delete {o}['d'+i]; }})();"),
        13 => format!("(function(){{ for (let i=0;i<6;i++) sites.forEach(function(s){{ try {{ s[1]({{['u'+i]:1, {nm}:i}}); }} catch(e){{}} }}); }})();"),
        14 => format!("{o}.{nm}='shadow{v}';"),
        15 => format!("objs[{}]={{a:1,b:2}};", rng.below(12)),
        16 => format!("objs[{}]=Object.create({});", rng.below(12), rng.pick(&["P0", "P1"])),
        17 => format!("globalThis.{g}={v};"),
        18 => format!("delete globalThis.{g};"),
        19 => format!("Object.defineProperty(globalThis,'{g}',{{get(){{ return 'gg{v}'; }}, configurable:true}});"),
        20 => format!("objs[{}]=new {}();", rng.below(12), rng.pick(&["C", "D"])),
        21 => format!("{p}.{nm}=function {nm}{v}(){{ return 'f{v}'; }};"),
        22 => format!("objs[{}]=objs[{}];", rng.below(12), rng.below(12)),
        23 => format!("{o}.{nm}=undefined; {o}.q{v}={v};"),
        // composite histories with a warm-up of every site in the middle
        24 | 25 => format!("{target}.{nm}='tmp{v}'; warm(); delete {target}.{nm}; {target}.z{v}='next{v}';"),
        26 => format!("Object.defineProperty({target},'{nm}',{{value:{v}, configurable:true, writable:true, enumerable:true}}); warm(); Object.defineProperty({target},'{nm}',{{get(){{ return 'late{v}'; }}, configurable:true}});"),
        27 => format!("warm(); Object.setPrototypeOf({o}, {}); warm(); Object.setPrototypeOf({o}, {});", rng.pick(&["P0", "P1", "C.prototype"]), rng.pick(&["P1", "P0", "null", "Object.prototype"])),
        28 => format!("{p}.{nm}='own{v}'; warm(); {o}.{nm}='shadow{v}'; warm(); delete {o}.{nm};"),
        29 => format!("globalThis.{g}={v}; warm(); delete globalThis.{g}; globalThis.gz{v}={v};"),
        30 => format!("warm(); delete {target}.{nm}; warm(); {target}.{nm}='back{v}';"),
        31 | 32 => format!("Object.defineProperty({target},'{nm}',{{get(){{ return 'G{v}:'+(typeof this)+':'+(this===null||this===undefined ? 'nullish' : (Object(this)===this ? 'obj' : String(this)))+':'+(this && this.x); }}, set(w){{ 'use strict'; try {{ this._w{v}=w; }} catch(e){{}} }}, configurable:true, enumerable:true}});"),
        33 => format!("Object.defineProperty({},'{nm}',{{get(){{ return 'prim{v}:'+(typeof this); }}, configurable:true}});", rng.pick(&["Number.prototype", "String.prototype", "Boolean.prototype", "BigInt.prototype", "Symbol.prototype"])),
        34 => format!("Object.defineProperty({},'length',{{get(){{ return {v}; }}, configurable:true}});", rng.pick(&["C.prototype", "P0", "MyArr.prototype", "objs[9]"])),
        35 => format!("RAW:let {g} = 'lexical{v}';"),
        36 => format!("RAW:var {g} = 'var{v}'; function gf{v}(){{ return {g}; }}"),
        37 => format!("Object.defineProperty({target},'{nm}',{{enumerable:{}, writable:{}}});", rng.chance(1, 2), rng.chance(1, 2)),
        38 => format!("warm(); {o}.{nm}='w'; Object.{}({o}); warm();", rng.pick(&["freeze", "seal", "preventExtensions"])),
        39 => format!("{o}.{nm}='rw{v}'; warm(); Object.defineProperty({o},'{nm}',{{writable:false}});"),
        40 => format!("Object.defineProperty({o},'{nm}',{{set(w){{ this._only{v}=w; }}, configurable:true}}); warm(); Object.defineProperty({o},'{nm}',{{get(){{ return 'added-getter{v}'; }}}});"),
        // one half of an accessor pair removed: the shape need not change, the stored function does
        42 | 43 => format!("Object.defineProperty({target},'{nm}',{{get(){{ return 'pair{v}'; }}, set(w){{ this._pair{v}=w; }}, configurable:true, enumerable:true}}); warm(); Object.defineProperty({target},'{nm}',{{set: undefined}});"),
        44 => format!("Object.defineProperty({target},'{nm}',{{get(){{ return 'pair{v}'; }}, set(w){{ this._pair{v}=w; }}, configurable:true, enumerable:true}}); warm(); Object.defineProperty({target},'{nm}',{{get: undefined}});"),
        45 => format!("Object.defineProperty({target},'{nm}',{{get(){{ return 'pair{v}'; }}, set(w){{ this._pair{v}=w; }}, configurable:true}}); warm(); Object.defineProperty({target},'{nm}',{{get: undefined, set: undefined}}); warm();"),
        _ => format!("{o}.{nm}='c{v}'; warm(); Object.defineProperty({o},'{nm}',{{configurable:false, enumerable:false}}); delete {o}.{nm};"),
    }
}

pub fn generate(rng: &mut Rng, tier: Tier) -> Value {
    let n = rng.range(6, if tier == Tier::Quick { 30 } else { 60 });
    let sites = site_defs(rng);
    let site_names: Vec<&'static str> =
        NAMES.iter().copied().filter(|nm| sites.iter().any(|s| s.split('|').next().is_some_and(|h| h.split('_').nth(1) == Some(nm)))).collect();
    // receivers per site: 3 sites in 5 see 1..3 receivers (mono- / polymorphic caches), 1 in 5 sees
    // 4..6 (around the capacity of 4), 1 in 5 all 22 (megamorphic)
    let recv: Vec<Vec<u32>> = (0..sites.len() + 1)
        .map(|_| {
            let k = match rng.below(5) {
                0..=2 => rng.range(1, 3),
                3 => rng.range(4, 6),
                _ => 0,
            };
            (0..k).map(|_| if rng.chance(1, 6) { rng.range(17, 21) as u32 } else { rng.below(17) as u32 }).collect()
        })
        .collect();
    let hot: Vec<u32> = recv.iter().flatten().copied().filter(|i| *i < 17).collect();
    let ops = (0..n).map(|_| gen_op(rng, &site_names, &hot)).collect();
    let sc = Scenario {
        setup: SETUP.to_string(),
        sites,
        ops,
        bug_seed: rng.next_u64(),
        miss_per_mille: *rng.pick(&[0u32, 50, 200, 500, 900]),
        skip_per_mille: *rng.pick(&[0u32, 50, 200, 500, 900]),
        gc_every: *rng.pick(&[0u64, 0, 1, 7, 64]),
        recv,
    };
    serde_json::to_value(sc).expect("ser")
}

#[derive(Clone, Copy, PartialEq, Debug)]
enum Ic {
    Off,
    On,
    Bug,
}

const PROBE: &str = r#"
(function(){ var every=objs.concat(prims); for (var i=0;i<sites.length;i++){ var all=(typeof receiversOf=='function') ? receiversOf(i, every) : every; var rs=[]; for (var j=0;j<all.length;j++){ try { rs.push(sites[i][1](all[j])); } catch(e){ rs.push('!'+e.name); } } print(sites[i][0]+': '+rs.join(' ')); } })();
"#;

struct Out {
    log: Vec<String>,
    stats: boa_engine::verif::IcStats,
    collections: u64,
}

fn run_config(sc: &Scenario, ic: Ic, gc: bool) -> Out {
    boa_gc::verif::set_policy(None);
    let _ = take_ic_stats();
    match ic {
        Ic::On => set_ic_policy(None),
        Ic::Off => set_ic_policy(Some(Box::new(|_| true))),
        Ic::Bug => {
            let mut rng = Rng::new(sc.bug_seed);
            let (m, s) = (u64::from(sc.miss_per_mille), u64::from(sc.skip_per_mille));
            set_ic_policy(Some(Box::new(move |e| match e {
                IcEvent::Lookup => rng.below(1000) < m,
                IcEvent::Fill => rng.below(1000) < s,
            })));
        }
    }
    let policy = if gc && sc.gc_every > 0 { GcPolicy::EveryK(sc.gc_every) } else { GcPolicy::Never };
    let inst = js::install_gc(&policy);
    let c0 = boa_gc::verif::stats().collections;
    let mut log = vec![];
    {
        let (mut ctx, host) = js::new_default_context();
        let sites_src = format!(
            "var recv={}; var sites=[{}];",
            serde_json::to_string(&sc.recv).expect("ser"),
            sc.sites
                .iter()
                .map(|s| {
                    let (n, f) = s.split_once('|').unwrap_or(("bad", "function(){}"));
                    format!("['{n}', {f}]")
                })
                .collect::<Vec<_>>()
                .join(",")
        );
        let mut step = |src: &str, log: &mut Vec<String>, tag: &str| {
            let r = ctx.eval(Source::from_bytes(src));
            let c = js::completion(&r, &mut ctx);
            if !c.starts_with("ok:") {
                log.push(format!("{tag} => {c}"));
            }
            log.extend(host.trace.take());
            if gc {
                boa_gc::verif::collect_now();
            }
        };
        step(&sc.setup, &mut log, "setup");
        step(&sites_src, &mut log, "sites");
        step(PROBE, &mut log, "probe");
        for (i, op) in sc.ops.iter().enumerate() {
            // mutations may legitimately throw (frozen objects...): both sides must agree
            if op == "RESITE" {
                // the same access sites as fresh code: empty caches meet the objects as they are now
                step(&sites_src, &mut log, "sites");
                step(PROBE, &mut log, "probe");
                continue;
            }
            match op.strip_prefix("RAW:") {
                // top-level declarations (a global `let` shadows a property of the global object)
                Some(raw) => step(raw, &mut log, "raw-op"),
                None => step(&format!("try {{ {op} }} catch (e) {{ print('op{i} !'+e.name); }}"), &mut log, "op"),
            }
            step(PROBE, &mut log, "probe");
        }
    }
    let _ = inst;
    js::uninstall_gc();
    set_ic_policy(None);
    let collections = (boa_gc::verif::stats().collections - c0) as u64;
    boa_gc::verif::collect_now();
    Out { log, stats: take_ic_stats(), collections }
}

pub fn execute(v: &Value) -> RunReport {
    let sc: Scenario = serde_json::from_value(v.clone()).expect("scenario");
    let mut rep = RunReport::default();
    let reference = run_config(&sc, Ic::Off, false);
    let configs: [(&str, Ic, bool); 4] = [("on", Ic::On, false), ("on+gc", Ic::On, true), ("bug", Ic::Bug, false), ("bug+gc", Ic::Bug, true)];
    let mut fp = Fp::default();
    let mut sfp = Fp::default();
    for l in &reference.log {
        fp.add(l);
    }
    rep.execs = 1;
    for (name, ic, gc) in configs {
        let out = run_config(&sc, ic, gc);
        rep.execs += 1;
        if out.log != reference.log {
            let at = out.log.iter().zip(reference.log.iter()).position(|(a, b)| a != b).unwrap_or(out.log.len().min(reference.log.len()));
            // which step: count probe blocks
            rep.violate(
                "cache-divergence",
                format!(
                    "config {name}: line {at}: cached {:?} vs uncached {:?}",
                    out.log.get(at),
                    reference.log.get(at)
                ),
            );
        }
        rep.fault("ic.forced_miss", out.stats.forced_misses);
        rep.fault("ic.skipped_fill", out.stats.skipped_fills);
        if gc {
            rep.fault("gc.between_steps_or_at_alloc", out.collections);
        }
        rep.probe("ic_hit_own_slot", out.stats.hits_own);
        rep.probe("ic_hit_prototype_slot", out.stats.hits_prototype);
        rep.probe("ic_stale_weak_entry_dropped", out.stats.stale_dropped);
        rep.probe("ic_megamorphic_transition", out.stats.megamorphic);
        rep.probe("ic_fills", out.stats.fills);
        sfp.add_u64(out.stats.hits_own);
        sfp.add_u64(out.stats.hits_prototype);
        sfp.add_u64(out.stats.forced_misses);
        sfp.add_u64(out.stats.stale_dropped);
    }
    rep.fingerprint = fp.0;
    rep.sched_fp = sfp.0;
    rep.steps = sc.ops.len() as u64;
    rep.nontrivial = true;
    rep.shape = format!("s{}o{}", sc.sites.len(), sc.ops.len());
    rep
}

pub fn shrink(v: &Value) -> Vec<Value> {
    let sc: Scenario = serde_json::from_value(v.clone()).expect("scenario");
    let mut out = vec![];
    let n = sc.ops.len();
    if n > 3 {
        for (a, b) in [(n / 2, n), (0, n / 2)] {
            let mut s = sc.clone();
            s.ops.drain(a..b);
            out.push(s);
        }
    }
    for i in (0..n).rev() {
        let mut s = sc.clone();
        s.ops.remove(i);
        out.push(s);
    }
    for i in (0..sc.sites.len()).rev() {
        if sc.sites.len() > 1 {
            let mut s = sc.clone();
            s.sites.remove(i);
            if i < s.recv.len() {
                s.recv.remove(i);
            }
            out.push(s);
        }
    }
    if sc.gc_every != 0 {
        let mut s = sc.clone();
        s.gc_every = 0;
        out.push(s);
    }
    for (m, k) in [(0, sc.skip_per_mille), (sc.miss_per_mille, 0)] {
        if (m, k) != (sc.miss_per_mille, sc.skip_per_mille) {
            let mut s = sc.clone();
            s.miss_per_mille = m;
            s.skip_per_mille = k;
            out.push(s);
        }
    }
    out.into_iter().map(|s| serde_json::to_value(s).expect("ser")).collect()
}

pub const PROP: Prop = Prop {
    id: "C06",
    level: "exploration",
    runs_quick: 1_500,
    runs_thorough: 25_000,
    generate,
    execute,
    shrink,
    rule: "one run = one scenario (16 pooled receivers incl. arrays, functions, class instances, null-prototype and arguments objects, and four unique-shape (dictionary) receivers: Math, Array.prototype, a user object pushed into dictionary mode, globalThis + 5 primitive receivers; prototype chains P0<-P1, C<-D, built-in prototypes; 5..11 access sites drawn from get / set / strict-mode set / call / compound / optional / global read / global write / length / receiver-sensitive get / super forms; a history of 6..30 (quick) / 6..60 (thorough) mutations drawn from 46 kinds (this-sensitive accessors, one half of an accessor pair removed and restored, getters on primitives' prototypes, `length` getters, attribute-only changes, top-level lexical declarations shadowing global properties; 8 of them composite, with a warm-up of every site in the middle: install-use-remove-replace, data-to-accessor, prototype swap, shadow/unshadow, global install/remove): add, delete, redefine as accessor / read-only / setter, reorder or shift a prototype's layout, setPrototypeOf, preventExtensions/seal/freeze, dictionary mode, megamorphic storm, shadow/unshadow, pool replacement, global object mutations) executed in 5 configurations: cache off (reference), on, on + collections, buggified, buggified + collections; after every mutation every site runs against its receivers (3 sites in 5 see 1..3 of the 22 receivers, 1 in 5 sees 4..6, 1 in 5 all: a cache holds 4 shapes and switches itself off at the fifth; one step in 14 re-creates the sites as fresh code with empty caches); non-trivial = always (every run compares four cached configurations against the uncached one); distinct = distinct (site count, history length, hit/miss/stale counters of the four configurations)",
    real: &["lexer/parser/compiler/VM/builtins", "shapes, property maps, inline caches", "boa_gc (weak shapes)"],
    stub: &["inline-cache interference (hook H3: forced miss / skipped fill / off)", "collection trigger decision (hook H1)"],
    assumptions: &[
        "the reference is the same engine with every cache lookup forced to miss and every fill skipped, i.e. the specification path the cache shortcuts; a defect in that path itself is invisible here",
    ],
    nondeterminism_is_violation: false,
    hang_is_violation: true,
};
