//! C08 — runtime limits stop runaway scripts and cannot be intercepted.
//!
//! The fault is the limit: sweeping its value sweeps the instant at which execution is cut.
//! One scenario = bomb (loop form x placement, or recursion) x re-entry route x wrapper x one
//! active limit dimension whose value is chosen relative to the bomb (must-stop / must-pass /
//! boundary band). Oracle: expectation by construction + prefix of the unlimited run.

use crate::harness::{Prop, RunReport, Tier};
use crate::js;
use crate::rng::{Fp, Rng};
use boa_engine::{Source, vm::RuntimeLimits};
use serde::{Deserialize, Serialize};
use serde_json::Value;

#[derive(Serialize, Deserialize, Clone, Debug)]
pub struct Scenario {
    /// full program text (defines `bomb` and runs it through the route, inside the wrappers)
    pub src: String,
    /// "loop" | "rec" | "stack"
    pub dim: String,
    /// the active limit value
    pub limit: u64,
    /// upper bound on loop increments / recursion depth of one bomb activation; 0 = unbounded
    pub size: u64,
    /// lower bound on the same quantity (some forms skip an increment on `continue label`)
    #[serde(default)]
    pub size_lo: u64,
    /// "stop" | "pass" | "either"
    pub band: String,
    /// evaluation mode: 0 = eval, n>0 = evaluate_async_with_budget(n)
    pub budget: u32,
    /// bomb runs inside a job (the error is expected from run_jobs)
    pub in_job: bool,
    pub tags: Vec<String>,
}

// ---------------------------------------------------------------------------------------------
// generation

/// Loop forms. `{N}` = iteration count, `{T}` = body. Returns (source of the loop statement(s),
/// upper bound on IncrementLoopIteration executions in the activation containing it).
fn loop_form_inner(rng: &mut Rng, n: u64) -> (String, u64, &'static str) {
    let inf = n == 0;
    let k = rng.below(if inf { 5 } else { 12 });
    match (k, inf) {
        (0, true) => ("while(true){ tick(); }".into(), 0, "while"),
        (1, true) => ("for(;;){ tick(); }".into(), 0, "for"),
        (2, true) => ("do { tick(); } while(true);".into(), 0, "dowhile"),
        (3, true) => (
            "for (var x of (function*(){ var i=0; for(;;){ yield i++; } })()) { tick(); }".into(),
            0,
            "forof-gen",
        ),
        (_, true) => (
            "for (var x of {[Symbol.iterator](){ return { next(){ return {done:false, value:1}; }, return(){ print('S:iter-return'); return {}; } }; }}) { tick(); }".into(),
            0,
            "forof-iter",
        ),
        (0, _) => (format!("var i=0; while(i<{n}){{ tick(); i++; }}"), n, "while"),
        (1, _) => (format!("var i=0; do {{ tick(); i++; }} while(i<{n});"), n, "dowhile"),
        (2, _) => (format!("for (var i=0;i<{n};i++){{ tick(); }}"), n, "for"),
        (3, _) => (
            format!("for (var k in Object.fromEntries(Array.from({{length:{n}}}, function(_, i){{ return ['k'+i, i]; }}))) {{ tick(); }}"),
            n,
            "forin",
        ),
        (4, _) => (format!("for (var x of Array.from({{length:{n}}})) {{ tick(); }}"), n, "forof-array"),
        (5, _) => (
            format!("for (var x of (function*(){{ yield* Array.from({{length:{n}}}); }})()) {{ tick(); }}"),
            n,
            "forof-gen",
        ),
        (6, _) => (
            format!("for (var x of {{[Symbol.iterator](){{ var i=0; return {{ next(){{ return {{done: i++>={n}, value:i}}; }}, return(){{ print('S:iter-return'); return {{}}; }} }}; }}}}) {{ tick(); }}"),
            n,
            "forof-iter",
        ),
        (7, _) => {
            let a = (n / 2).max(1);
            (
                format!("outer: for (var a=0;a<{a};a++){{ for (var b=0;b<5;b++){{ tick(); if (b==1) continue outer; }} }}"),
                a + 2 * a,
                "labelled-continue",
            )
        }
        (8, _) => {
            let a = (n / 3).max(1);
            (format!("for (var a=0;a<{a};a++){{ for (var b=0;b<3;b++){{ tick(); }} }}"), a + 3 * a, "nested")
        }
        (9, _) => (
            format!("for (var i=0;i<{n};i++){{ switch(i%2){{ case 0: tick(); continue; default: tick(); }} }}"),
            n,
            "switch-continue",
        ),
        (10, _) => (format!("var i=0; while(true){{ if (i++>={n}) break; try {{ tick(); }} finally {{ }} }}"), n + 1, "while-break-finally"),
        _ => (format!("for (let i=0;i<{n};i++){{ (function(){{ return i; }})(); tick(); }}"), n, "for-let-closure"),
    }
}

fn loop_form(rng: &mut Rng, n: u64) -> (String, u64, u64, &'static str) {
    let (src, hi, name) = loop_form_inner(rng, n);
    // `continue outer` from the inner loop skips the inner loop's own increment
    let lo = if name == "labelled-continue" { hi / 3 * 2 } else { hi };
    (src, lo, hi, name)
}

/// Where the loop lives. `{L}` = loop statements. The result defines `function bomb()`.
fn placement(rng: &mut Rng, lp: &str) -> (String, &'static str) {
    match rng.below(9) {
        0 => (format!("function bomb(){{ {lp} return 1; }}"), "function"),
        1 => (format!("var bomb = () => {{ {lp} return 1; }};"), "arrow"),
        2 => (format!("var bombO = {{ m(){{ {lp} return 1; }} }}; function bomb(){{ return bombO.m(); }}"), "method"),
        3 => (format!("var bombO = {{ get g(){{ {lp} return 1; }} }}; function bomb(){{ return bombO.g; }}"), "getter"),
        4 => (format!("function bomb(){{ class C {{ static {{ {lp} }} }} return 1; }}"), "static-block"),
        5 => (format!("function bomb(){{ class C {{ f = (() => {{ {lp} return 1; }})(); }} return new C().f; }}"), "field-init"),
        6 => (format!("function bomb(a = (function(){{ {lp} return 1; }})()){{ return a; }}"), "default-param"),
        7 => (format!("function bomb(){{ try {{ {lp} }} catch (e) {{ print('S:inner-caught'); }} finally {{ print('S:inner-finally'); }} return 1; }}"), "inner-try"),
        _ => (format!("function bomb(){{ return [0].map(function(){{ {lp} return 1; }})[0]; }}"), "callback"),
    }
}

const SYNC_ROUTES: &[(&str, &str)] = &[
    ("direct", "bomb()"),
    ("new", "new (function(){ this.v = bomb(); })().v"),
    ("getter", "({get p(){ return bomb(); }}).p"),
    ("setter", "(({set p(v){ bomb(); }}).p = 1)"),
    ("proxy-get", "new Proxy({}, {get(){ return bomb(); }}).zz"),
    ("proxy-set", "(new Proxy({}, {set(){ bomb(); return true; }}).zz = 1)"),
    ("proxy-has", "('zz' in new Proxy({}, {has(){ bomb(); return true; }}))"),
    ("proxy-ownkeys", "Object.keys(new Proxy({}, {ownKeys(){ bomb(); return []; }})).length"),
    ("proxy-gopd", "Object.getOwnPropertyDescriptor(new Proxy({}, {getOwnPropertyDescriptor(){ bomb(); return undefined; }}), 'a')"),
    ("proxy-apply", "new Proxy(function(){}, {apply(){ return bomb(); }})()"),
    ("proxy-construct", "new (new Proxy(function(){}, {construct(){ bomb(); return {}; }}))()"),
    ("iter-next", "Array.from({[Symbol.iterator](){ var d=false; return { next(){ if (!d) { d=true; bomb(); return {done:false, value:1}; } return {done:true}; } }; }}).length"),
    ("array-map", "[1].map(function(){ return bomb(); })[0]"),
    ("array-foreach", "[1].forEach(function(){ bomb(); })"),
    ("array-reduce", "[1,2].reduce(function(a){ return bomb(); })"),
    ("array-sort", "[2,1].sort(function(a,b){ bomb(); return a-b; })[0]"),
    ("array-find", "[1].find(function(){ return bomb(); })"),
    ("array-from-map", "Array.from([1], function(){ return bomb(); })[0]"),
    ("string-replace", "'a'.replace('a', function(){ bomb(); return 'b'; })"),
    ("json-reviver", "JSON.parse('[1]', function(k,v){ bomb(); return v; })"),
    ("json-replacer", "JSON.stringify([1], function(k,v){ bomb(); return v; })"),
    ("json-tojson", "JSON.stringify({toJSON(){ bomb(); return 1; }})"),
    ("map-foreach", "new Map([[1,1]]).forEach(function(){ bomb(); })"),
    ("set-foreach", "new Set([1]).forEach(function(){ bomb(); })"),
    ("typedarray-map", "new Uint8Array(1).map(function(){ bomb(); return 1; })[0]"),
    ("typedarray-sort", "new Uint8Array([2,1]).sort(function(a,b){ bomb(); return a-b; })[0]"),
    ("reflect-apply", "Reflect.apply(bomb, undefined, [])"),
    ("reflect-construct", "Reflect.construct(function(){ bomb(); }, [])"),
    ("fn-call", "bomb.call(null)"),
    ("fn-apply", "bomb.apply(null, [])"),
    ("fn-bind", "bomb.bind(null)()"),
    ("toprimitive", "(+{[Symbol.toPrimitive](){ bomb(); return 1; }})"),
    ("valueof", "(1 + {valueOf(){ bomb(); return 1; }})"),
    ("tostring", "('' + {toString(){ bomb(); return 's'; }})"),
    ("hasinstance", "(1 instanceof {[Symbol.hasInstance](){ bomb(); return true; }})"),
    ("species", "(function(){ class A extends Array { static get [Symbol.species](){ bomb(); return Array; } } return new A(1,2).map(function(x){ return x; }).length; })()"),
    ("tagged-template", "(function(s){ return bomb(); })`x`"),
    ("with-unscopables", "(function(){ var o = {x:1, get [Symbol.unscopables](){ bomb(); return {}; }}; with (o) { return x; } })()"),
    ("eval-direct", "eval('bomb()')"),
    ("eval-indirect", "(0, eval)('bomb()')"),
    ("new-function", "new Function('return bomb()')()"),
    ("class-heritage", "(function(){ class B extends (bomb(), Object) {} return 1; })()"),
    ("computed-key", "({[bomb()]: 1})"),
    ("promise-executor", "new Promise(function(res){ bomb(); res(1); })"),
    ("generator-next", "(function*(){ yield bomb(); })().next().value"),
    ("generator-return-finally", "(function(){ var g = (function*(){ try { yield 1; } finally { bomb(); } })(); g.next(); return g.return(2).value; })()"),
    ("spread-iter", "[...{[Symbol.iterator](){ var d=false; return { next(){ if (!d) { d=true; bomb(); return {done:false, value:1}; } return {done:true}; } }; }}].length"),
    ("destructure-iter", "(function(){ var [a] = {[Symbol.iterator](){ return { next(){ bomb(); return {done:false, value:1}; }, return(){ print('S:destructure-return'); return {}; } }; }}; return a; })()"),
    ("define-getter-reflect", "Reflect.get({get p(){ return bomb(); }}, 'p')"),
    // a builtin holds an open iterator while the callback runs: its `return` method is user code
    // that must not run after the limit error
    ("array-from-iter-mapfn", "Array.from({[Symbol.iterator](){ var i=0; return { next(){ return {done: i++>=2, value:i}; }, return(){ print('S:builtin-iter-return'); return {}; } }; }}, function(){ return bomb(); }).length"),
    ("map-ctor-adder", "(function(){ class M extends Map { set(k,v){ bomb(); return super.set(k,v); } } return new M({[Symbol.iterator](){ var i=0; return { next(){ return {done: i++>=1, value:[i,i]}; }, return(){ print('S:builtin-iter-return'); return {}; } }; }}).size; })()"),
    ("set-ctor-adder", "(function(){ class S2 extends Set { add(v){ bomb(); return super.add(v); } } return new S2({[Symbol.iterator](){ var i=0; return { next(){ return {done: i++>=1, value:i}; }, return(){ print('S:builtin-iter-return'); return {}; } }; }}).size; })()"),
    ("weakmap-ctor-adder", "(function(){ class W extends WeakMap { set(k,v){ bomb(); return super.set(k,v); } } new W({[Symbol.iterator](){ var i=0; return { next(){ return {done: i++>=1, value:[{},i]}; }, return(){ print('S:builtin-iter-return'); return {}; } }; }}); return 1; })()"),
    ("destructure-default", "(function(){ var [a = bomb()] = {[Symbol.iterator](){ return { next(){ return {done:false, value:undefined}; }, return(){ print('S:destructure-return'); return {}; } }; }}; return a; })()"),
    ("object-fromentries-getter", "Object.fromEntries({[Symbol.iterator](){ var i=0; return { next(){ return {done: i++>=1, value:{get 0(){ bomb(); return 'k'; }, 1:1}}; }, return(){ print('S:builtin-iter-return'); return {}; } }; }}).k"),
    ("iterator-helper-map", "(typeof Iterator=='function' && Iterator.from ? Iterator.from({[Symbol.iterator](){ var i=0; return { next(){ return {done: i++>=2, value:i}; }, return(){ print('S:builtin-iter-return'); return {}; } }; }}).map(function(x){ bomb(); return x; }).toArray().length : bomb())"),
    ("yield-star-inner-return", "(function(){ function* inner(){ try { yield 1; } finally { print('S:inner-generator-finally'); } } function* outer(){ yield* inner(); } var g=outer(); g.next(); bomb(); return 1; })()"),
    ("promise-all-iter", "(function(){ var r = Promise.all({[Symbol.iterator](){ var i=0; return { next(){ return {done: i++>=1, value:{then(res){ res(1); }}}; }, return(){ print('S:builtin-iter-return'); return {}; } }; }}); bomb(); return typeof r; })()"),
    ("array-tostring-join", "[{toString(){ bomb(); return 'x'; }}].join()"),
];

/// Routes that run the bomb inside a promise job. `{W}` = wrapped bomb statement(s).
const JOB_ROUTES: &[(&str, &str)] = &[
    ("then", "Promise.resolve(1).then(function(){ {W} }).catch(function(){ print('S:promise-catch'); }).finally(function(){ print('S:promise-finally'); });"),
    ("thenable", "Promise.resolve({then(res){ {W} res(1); }}).then(function(){ print('S:thenable-resolved'); }, function(){ print('S:thenable-rejected'); });"),
    ("await-continuation", "(async function(){ await null; {W} print('S:after-await-bomb'); })().then(function(){ print('S:async-resolved'); }, function(){ print('S:async-rejected'); });"),
    ("await-in-try", "(async function(){ try { await null; {W} } catch (e) { print('S:async-caught'); } finally { print('S:async-finally'); } })();"),
    ("second-await", "(async function(){ await 1; await 2; {W} })().catch(function(){ print('S:promise-catch'); });"),
    ("async-generator-step", "(function(){ var ag = (async function*(){ {W} yield 1; })(); ag.next().then(function(){ print('S:ag-resolved'); }, function(){ print('S:ag-rejected'); }); })();"),
    ("async-generator-after-yield", "(function(){ var ag = (async function*(){ yield 1; {W} yield 2; })(); ag.next(); ag.next().then(function(){ print('S:ag-resolved'); }, function(){ print('S:ag-rejected'); }); })();"),
    ("for-await", "(async function(){ for await (var v of [Promise.resolve(1)]) { {W} } print('S:after-for-await'); })().catch(function(){ print('S:promise-catch'); });"),
    ("reject-handler", "Promise.reject(1).then(null, function(){ {W} }).then(function(){ print('S:chain-after'); }, function(){ print('S:chain-rejected'); });"),
    ("promise-all-then", "Promise.all([Promise.resolve(1)]).then(function(){ {W} }).catch(function(){ print('S:promise-catch'); });"),
    ("finally-callback", "Promise.resolve(1).finally(function(){ {W} }).then(function(){ print('S:chain-after'); }, function(){ print('S:chain-rejected'); });"),
];

fn wrap(rng: &mut Rng, call: &str, level: &str) -> String {
    match rng.below(5) {
        0 => format!("{call};"),
        1 => format!("try {{ {call}; }} catch (e) {{ print('S:{level}-caught'); }}"),
        2 => format!("try {{ {call}; }} finally {{ print('S:{level}-finally'); }}"),
        3 => format!("try {{ {call}; }} catch (e) {{ print('S:{level}-caught'); }} finally {{ print('S:{level}-finally'); }}"),
        _ => format!(
            "try {{ try {{ {call}; }} finally {{ print('S:{level}-finally-in'); }} }} catch (e) {{ print('S:{level}-caught-out'); }}"
        ),
    }
}

/// Second family: an arbitrary feature kernel (or several) under a seeded limit of one dimension.
/// Nothing is predicted; the oracle is "identical to the unlimited run, or a limit error whose
/// trace is a prefix of it".
fn generate_kernel(rng: &mut Rng) -> Value {
    let n = rng.range(1, 2) as usize;
    let (ks, names): (Vec<String>, Vec<String>) = if rng.chance(1, 3) {
        // promise jobs, async functions and async generators: a limit that fires inside a job, an
        // await continuation or an async-generator step must reach the host as well
        let g = crate::props::c16::generated();
        let (n, src, _) = &g[rng.idx(g.len())];
        (vec![src.clone()], vec![format!("async-{n}")])
    } else {
        let (ks, names) = crate::kernels::compose(rng, "spd", n);
        (ks, names.iter().map(|s| (*s).to_string()).collect())
    };
    let dim = *rng.pick(&["loop", "rec", "stack"]);
    let limit = match dim {
        "loop" => *rng.pick(&[0u64, 1, 2, 3, 5, 8, 13, 21, 40, 80, 200, 1000]),
        "rec" => *rng.pick(&[1u64, 2, 3, 4, 5, 6, 8, 10, 16, 32]),
        _ => *rng.pick(&[8u64, 16, 24, 32, 48, 64, 96, 128, 256, 1024]),
    };
    let budget = if rng.chance(1, 4) { *rng.pick(&[1u32, 2, 3, 7, 64, 256]) } else { 0 };
    let mut tags: Vec<String> = names.iter().map(|s| format!("kernel:{s}")).collect();
    tags.push("generic".into());
    let sc = Scenario { src: ks.concat(), dim: dim.into(), limit, size: 1, size_lo: 1, band: "either".into(), budget, in_job: false, tags };
    serde_json::to_value(sc).expect("ser")
}

pub fn generate(rng: &mut Rng, _tier: Tier) -> Value {
    if rng.chance(1, 4) {
        return generate_kernel(rng);
    }
    let dim = *rng.pick(&["loop", "loop", "loop", "rec", "rec", "stack"]);
    let in_job = rng.chance(3, 10);
    let mut tags = vec![];
    // bomb
    let (bomb_def, size_lo, size, unbounded) = match dim {
        "loop" => {
            let unbounded = rng.chance(1, 6);
            let n = if unbounded { 0 } else { rng.range(1, 48) };
            let (lp, lo, total, form) = loop_form(rng, n);
            let (def, place) = placement(rng, &lp);
            tags.push(form.to_string());
            tags.push(place.to_string());
            (def, lo, total, unbounded)
        }
        _ => {
            let unbounded = rng.chance(1, 5);
            let d = if unbounded { 0 } else { rng.range(1, if dim == "stack" { 120 } else { 48 }) };
            // "unbounded" = far beyond any limit the scenario sets: if the limit under test is not
            // enforced the recursion still ends, and the run is reported instead of exhausting memory
            let stop = if unbounded { "d>=300000".to_string() } else { format!("d>={d}") };
            let def = match rng.below(16) {
                // recursion through other call paths: each has its own entry point into the engine's
                // call machinery and must be covered by the recursion and stack limits as well
                4 => {
                    tags.push("rec-derived-ctor-returns-object".into());
                    format!("class RB {{}} class RA extends RB {{ constructor(d){{ TK++; if ({stop}) return {{}}; return new RA(d+1); }} }} function bomb(){{ new RA(1); return 1; }}")
                }
                5 => {
                    tags.push("rec-derived-ctor-super-argument".into());
                    format!("class RB {{ constructor(x){{ this.x=x; }} }} class RA extends RB {{ constructor(d){{ TK++; super(({stop}) ? 0 : new RA(d+1).x+1); }} }} function bomb(){{ return new RA(1).x; }}")
                }
                6 => {
                    tags.push("rec-base-ctor".into());
                    format!("function RC(d){{ TK++; this.v = ({stop}) ? 0 : new RC(d+1).v+1; }} function bomb(){{ return new RC(1).v; }}")
                }
                7 => {
                    tags.push("rec-bound".into());
                    format!("var rbb; function rb(d){{ TK++; if ({stop}) return 0; return rbb(d+1); }} rbb = rb.bind(null); function bomb(){{ return rbb(1); }}")
                }
                8 => {
                    tags.push("rec-call-apply".into());
                    format!("function rc(d){{ TK++; if ({stop}) return 0; return d%2 ? rc.call(null, d+1) : rc.apply(null, [d+1]); }} function bomb(){{ return rc(1); }}")
                }
                9 => {
                    tags.push("rec-reflect".into());
                    format!("function rr(d){{ TK++; if ({stop}) return 0; return d%2 ? Reflect.apply(rr, null, [d+1]) : Reflect.construct(function(){{ this.v = rr(d+1); }}, []).v; }} function bomb(){{ return rr(1); }}")
                }
                10 => {
                    tags.push("rec-getter".into());
                    format!("var rgd=0; var rgo = {{ get g(){{ var d=++rgd; TK++; if ({stop}) return 0; return this.g; }} }}; function bomb(){{ rgd=0; return rgo.g; }}")
                }
                11 => {
                    tags.push("rec-proxy-apply".into());
                    format!("var rpf = new Proxy(function(){{}}, {{ apply(t, th, args){{ var d=args[0]; TK++; if ({stop}) return 0; return rpf(d+1); }} }}); function bomb(){{ return rpf(1); }}")
                }
                12 => {
                    tags.push("rec-tagged-template".into());
                    format!("function rt(s, d){{ TK++; if ({stop}) return 0; return rt`${{d+1}}`; }} function bomb(){{ return rt`${{1}}`; }}")
                }
                13 => {
                    tags.push("rec-arrow-async".into());
                    format!("var rar = async (d) => {{ TK++; if ({stop}) return 0; return rar(d+1); }}; function bomb(){{ rar(1); return 1; }}")
                }
                14 => {
                    tags.push("rec-generator-delegate".into());
                    format!("function* rgen(d){{ TK++; if (!({stop})) yield* rgen(d+1); }} function bomb(){{ return [...rgen(1)].length; }}")
                }
                15 => {
                    tags.push("rec-class-static-new-target".into());
                    format!("class RS {{ static make(d){{ TK++; if ({stop}) return 0; return Reflect.construct(RS, [d+1], RS).v; }} constructor(d){{ this.v = RS.make(d); }} }} function bomb(){{ return RS.make(1); }}")
                }
                0 => {
                    tags.push("rec-plain".into());
                    format!("function rec(d){{ TK++; if ({stop}) return 0; return 1+rec(d+1); }} function bomb(){{ return rec(1); }}")
                }
                1 => {
                    tags.push("rec-try".into());
                    format!("function rec(d){{ TK++; if ({stop}) return 0; try {{ return 1+rec(d+1); }} catch (e) {{ print('S:rec-caught'); return -1; }} finally {{ if (d==1) print('S:rec-finally'); }} }} function bomb(){{ return rec(1); }}")
                }
                2 => {
                    tags.push("rec-mutual".into());
                    format!("function ra(d){{ TK++; if ({stop}) return 0; return rb(d+1); }} function rb(d){{ TK++; if ({stop}) return 0; return ra(d+1); }} function bomb(){{ return ra(1); }}")
                }
                _ => {
                    tags.push("rec-method".into());
                    format!("var ro = {{ m(d){{ TK++; if ({stop}) return 0; return this.m(d+1); }} }}; function bomb(){{ return ro.m(1); }}")
                }
            };
            // shapes that go through native re-entry or helper frames use up to three units of
            // recursion depth per level; generator and async shapes run on their own value stacks
            let plain = tags.iter().any(|t| matches!(t.as_str(), "rec-plain" | "rec-try" | "rec-mutual" | "rec-method"));
            (def, d, if plain { d } else { d * 3 }, unbounded)
        }
    };
    // limit value relative to the bomb
    let (limit, band): (u64, &str) = match dim {
        "loop" => {
            if unbounded {
                (*rng.pick(&[0u64, 1, 2, 3, 7, 50, 200]), "stop")
            } else {
                match rng.below(10) {
                    0..=3 => (rng.range(0, size_lo.saturating_sub(3)), "stop"),
                    4..=6 => (size + 6 + rng.below(20), "pass"),
                    _ => (rng.range(size.saturating_sub(2), size + 5), "either"),
                }
            }
        }
        "rec" => {
            if unbounded {
                (*rng.pick(&[1u64, 2, 3, 5, 16, 64, 200]), "stop")
            } else {
                match rng.below(10) {
                    0..=3 => (rng.range(1, size_lo.saturating_sub(2).max(1)), "stop"),
                    4..=6 => (size + 16 + rng.below(20), "pass"),
                    _ => (rng.range(size_lo.saturating_sub(1).max(1), size + 15), "either"),
                }
            }
        }
        _ => {
            if unbounded {
                (rng.range(10, 400), "stop")
            } else {
                match rng.below(10) {
                    0..=3 => (rng.range(4, (2 * size_lo).saturating_sub(10).max(4)), "stop"),
                    4..=6 => (60 * size + 400 + rng.below(100), "pass"),
                    _ => (rng.range(2 * size_lo, 60 * size + 400), "either"),
                }
            }
        }
    };
    let own_stack = tags.iter().any(|t| matches!(t.as_str(), "rec-generator-delegate" | "rec-arrow-async"));
    // a "stop" band is only certain when the bomb alone exceeds the limit
    let band = match (dim, band) {
        ("stack", "stop") if own_stack => "either",
        ("loop", "stop") if !unbounded && size_lo < limit + 3 => "either",
        ("rec", "stop") if !unbounded && size_lo < limit + 2 => "either",
        ("stack", "stop") if !unbounded && 2 * size_lo < limit + 10 => "either",
        (_, b) => b,
    };
    // route + wrappers
    let inner_call = {
        let (name, r) = *rng.pick(SYNC_ROUTES);
        tags.push(name.to_string());
        r.to_string()
    };
    let body = if in_job {
        let (name, r) = *rng.pick(JOB_ROUTES);
        tags.push(format!("job:{name}"));
        let w = wrap(rng, &inner_call, "job");
        format!("{} print('sync-done');", r.replace("{W}", &w))
    } else {
        let w1 = wrap(rng, &inner_call, "mid");
        let w2 = if rng.chance(1, 2) {
            format!("(function(){{ {w1} }})();")
        } else {
            w1
        };
        let w3 = wrap(rng, "(function(){ W2 })()", "outer").replace("W2", &w2);
        format!("{w3} print('S:after-all');")
    };
    let src = format!("var TK=0;\n{bomb_def}\nprint('start');\n{body}");
    let budget = if rng.chance(1, 4) { *rng.pick(&[1u32, 2, 3, 7, 64, 256]) } else { 0 };
    let sc = Scenario { src, dim: dim.into(), limit, size, size_lo, band: band.into(), budget, in_job, tags };
    serde_json::to_value(sc).expect("ser")
}

// ---------------------------------------------------------------------------------------------
// execution

struct Outcome {
    completion: String,
    trace: Vec<String>,
    ticks: u64,
    reusable: bool,
    balanced: bool,
}

fn run_once(sc: &Scenario, limited: bool, rep: &mut RunReport) -> Outcome {
    let (mut ctx, host) = js::new_default_context();
    let before = boa_engine::verif::vm_depths(&ctx);
    let mut rl = RuntimeLimits::default();
    if limited {
        match sc.dim.as_str() {
            "loop" => rl.set_loop_iteration_limit(sc.limit),
            "rec" => rl.set_recursion_limit(sc.limit as usize),
            _ => rl.set_stack_size_limit(sc.limit as usize),
        }
    }
    ctx.set_runtime_limits(rl);
    let r = if sc.budget == 0 {
        ctx.eval(Source::from_bytes(sc.src.as_str()))
    } else {
        let (r, y) = js::eval_budgeted(&mut ctx, &sc.src, sc.budget, 5_000_000, |_| {});
        if limited {
            rep.fault("yield", y);
        }
        r
    };
    let mut completion = js::completion(&r, &mut ctx);
    if completion.starts_with("ok:") {
        completion = "ok".into();
    }
    // A host whose evaluation was cut by a limit gives up on that script: the jobs it had queued
    // before the cut are separate activations and would still run, which is not what the
    // prefix oracle is about.
    if !completion.contains("limit:") {
        let j = ctx.run_jobs();
        if let Err(e) = &j {
            completion = format!("{completion} / jobs:{}", js::error_string(e, &mut ctx));
        }
    }
    let trace = host.trace.take();
    // recursion bombs count their steps in a global variable: calling the native `tick` at every
    // level would itself perform the limit check that the call path under test may be missing
    let tk = ctx
        .global_object()
        .get(boa_engine::js_string!("TK"), &mut ctx)
        .ok()
        .and_then(|v| v.as_number())
        .unwrap_or(0.0) as u64;
    let ticks = host.ticks.get() + tk;
    let mut after = boa_engine::verif::vm_depths(&ctx);
    after.kept_alive = before.kept_alive;
    ctx.set_runtime_limits(RuntimeLimits::default());
    let probe = ctx.eval(Source::from_bytes("(function(){ var s=0; for (var i=0;i<10;i++) s+=i; return s; })()"));
    let reusable = matches!(&probe, Ok(v) if v.as_number() == Some(45.0));
    Outcome { completion, trace, ticks, reusable, balanced: before == after }
}

pub fn execute(v: &Value) -> RunReport {
    let sc: Scenario = serde_json::from_value(v.clone()).expect("scenario");
    let mut rep = RunReport::default();
    let unbounded = sc.size == 0;
    let t = run_once(&sc, true, &mut rep);
    rep.execs = 1;
    let reference = if unbounded {
        None
    } else {
        rep.execs += 1;
        Some(run_once(&sc, false, &mut rep))
    };
    let limit_err = t.completion.contains("limit:");
    let where_ = format!("[{} {}={} size={} band={} tags={:?}]", sc.dim, sc.dim, sc.limit, sc.size, sc.band, sc.tags);
    if t.completion.contains("enginepanic:") {
        rep.violate("engine-panic", format!("{where_} {}", t.completion));
    }
    if let Some(u) = &reference {
        if u.completion.contains("limit:") {
            // the reference itself must be limit-free (generator invariant)
            rep.violate("reference-hit-limit", format!("{where_} unlimited run ended with {}", u.completion));
            return rep;
        }
    }
    let sentinels: Vec<&String> = t.trace.iter().filter(|l| l.starts_with("S:")).collect();
    if limit_err {
        let kind = if t.completion.contains("limit:loop") {
            "limit.loop"
        } else if t.completion.contains("limit:recursion") {
            "limit.recursion"
        } else {
            "limit.stack"
        };
        rep.fault(kind, 1);
        // kind
        let ok_kind = match sc.dim.as_str() {
            "loop" => kind == "limit.loop",
            "rec" => kind == "limit.recursion",
            _ => kind == "limit.stack" || kind == "limit.recursion",
        };
        if !ok_kind {
            rep.violate("limit-wrong-kind", format!("{where_} got {}", t.completion));
        }
        if sc.band == "pass" {
            rep.violate("limit-spurious", format!("{where_} stayed under the limit but got {}", t.completion));
        }
        // interception
        let generic = sc.tags.iter().any(|t| t == "generic");
        let outer: Vec<&&String> = sentinels.iter().filter(|s| !generic && !s.starts_with("S:inner") && !s.starts_with("S:rec")).collect();
        if sc.band == "stop" && !sentinels.is_empty() {
            rep.violate("limit-intercepted", format!("{where_} after the cut: {sentinels:?}"));
        } else if !outer.is_empty() && !sc.in_job {
            rep.violate("limit-intercepted", format!("{where_} after the cut: {outer:?}"));
        }
        // bounded work
        if sc.band == "stop" {
            let bound = match sc.dim.as_str() {
                "loop" => Some(sc.limit + 2),
                "rec" => Some(sc.limit + 1),
                _ => None,
            };
            if let Some(b) = bound {
                if t.ticks > b {
                    rep.violate("work-unbounded", format!("{where_} {} bomb steps ran, bound {b}", t.ticks));
                }
            }
        }
        // prefix of the unlimited run
        if let Some(u) = &reference {
            if t.trace.len() > u.trace.len() || t.trace.iter().zip(u.trace.iter()).any(|(a, b)| a != b) {
                rep.violate("not-prefix", format!("{where_} limited {:?} vs unlimited {:?}", t.trace, u.trace));
            }
        }
    } else {
        match (&reference, sc.band.as_str()) {
            (_, "stop") => {
                let full = reference.as_ref().is_some_and(|u| u.trace == t.trace);
                if t.ticks > js::TICK_HARD_CAP || full || reference.is_none() {
                    rep.violate("limit-not-enforced", format!("{where_} completed with {} after {} bomb steps", t.completion, t.ticks));
                } else {
                    rep.violate(
                        "limit-swallowed",
                        format!("{where_} execution was cut (trace {:?}) but the host saw {}", t.trace, t.completion),
                    );
                }
            }
            (Some(u), _) => {
                if u.trace != t.trace || u.completion != t.completion {
                    // not cut according to the host, yet different from the unlimited run
                    let cut_silently = t.trace.len() < u.trace.len() && t.trace.iter().zip(u.trace.iter()).all(|(a, b)| a == b);
                    if cut_silently {
                        rep.violate(
                            "limit-swallowed",
                            format!("{where_} trace is a strict prefix {:?} of {:?} but the host saw {}", t.trace, u.trace, t.completion),
                        );
                    } else {
                        rep.violate(
                            "limit-changed-behaviour",
                            format!("{where_} limited {:?} {} vs unlimited {:?} {}", t.trace, t.completion, u.trace, u.completion),
                        );
                    }
                }
            }
            (None, _) => {}
        }
    }
    if !t.reusable {
        rep.violate("context-unusable", format!("{where_} probe evaluation failed afterwards"));
    }
    if !t.balanced {
        rep.violate("depth-leak", format!("{where_} VM bookkeeping not restored after {}", t.completion));
    }
    let mut fp = Fp::default();
    fp.add(&t.completion);
    for l in &t.trace {
        fp.add(l);
    }
    fp.add_u64(t.ticks);
    rep.fingerprint = fp.0;
    let mut sfp = Fp::default();
    sfp.add(&sc.dim);
    sfp.add_u64(sc.limit);
    sfp.add_u64(t.ticks);
    sfp.add(&t.completion);
    rep.sched_fp = sfp.0;
    rep.steps = t.ticks;
    rep.nontrivial = limit_err;
    rep.shape = format!("{}|{}|{}", sc.tags.join(","), sc.band, sc.budget);
    rep
}

pub fn shrink(v: &Value) -> Vec<Value> {
    let sc: Scenario = serde_json::from_value(v.clone()).expect("scenario");
    let mut out = vec![];
    if sc.budget != 0 {
        let mut s = sc.clone();
        s.budget = 0;
        out.push(s);
    }
    // textual simplifications that keep the program valid: drop wrappers' sentinels is not safe,
    // so only shrink numbers: the limit towards small values
    for l in [0u64, 1, 2, 3, sc.limit / 2] {
        if l < sc.limit && sc.band == "stop" {
            let mut s = sc.clone();
            s.limit = l;
            out.push(s);
        }
    }
    out.into_iter().map(|s| serde_json::to_value(s).expect("ser")).collect()
}

pub const PROP: Prop = Prop {
    id: "C08",
    level: "fault_enumeration",
    runs_quick: 40_000,
    runs_thorough: 4_000_000,
    generate,
    execute,
    shrink,
    rule: "one run = (3 of 4) one program from the factor product {12 loop forms x 9 placements | 16 recursion shapes (plain, try, mutual, method, derived / base constructors, super argument, bound, call/apply, Reflect, getter, Proxy apply, tagged template, async arrow, generator delegation, static + Reflect.construct)} x 59 synchronous re-entry routes (9 of them with a builtin or destructuring holding an open iterator whose return() must not run) x {none | 11 promise-job routes} x 5 wrapper shapes at up to 3 nesting levels x evaluation mode (eval / budgeted eval) with exactly one active limit (loop, recursion or stack) whose value is drawn relative to the bomb size into a must-stop, must-pass or boundary band; executed limited and (if the bomb is bounded) unlimited; or (1 of 4) one or two of 38 feature kernels, or one of C16's 2493 generated promise / async-generator programs, under a seeded loop / recursion / stack limit, where nothing is predicted and the limited run must equal the unlimited one or end in a limit error of the right kind with a trace that is a prefix of it; non-trivial = the limit fault fired; distinct = distinct (factor tags, band, budget, limit value, bomb steps executed, completion) tuples",
    real: &["lexer/parser/compiler/VM/builtins", "SimpleJobExecutor", "RuntimeLimits"],
    stub: &["SimClock", "SimHooks", "print/tick natives (tick has a hard cap that returns an engine-level error: in-process watchdog)"],
    assumptions: &[
        "loop-limit window: a single activation may execute its loop bodies at most limit+2 times (observed limit+1); must-pass only asserted when the bomb needs at least 6 fewer increments than the limit",
        "recursion must-pass only asserted with 16 frames of slack for route-internal native frames; stack-size cut points are never predicted, only bounded",
    ],
    nondeterminism_is_violation: false,
    hang_is_violation: true,
};
