//! C17 — module graphs evaluate each module once, in dependency order.
//!
//! Module graphs on a simulated loader (seeded latency per request, completion order, fetch and
//! parse faults) and a simulated or real executor. Oracles: a reference model of
//! InnerModuleEvaluation for synchronous fault-free graphs (exact start order, exact error);
//! for all graphs: once-only, dependency partial order, loader asked at most once per
//! (referrer, specifier), error propagation, re-evaluation returns the recorded outcome,
//! bounded liveness (the entry promise settles), cross-schedule equality of fault-free graphs.

use crate::harness::{Prop, RunReport, Tier};
use crate::js;
use crate::rng::{Fp, Rng};
use crate::seams::{LoadPlan, LoaderEv, Recording, SimExecutor, SimLoader};
use boa_engine::{Context, JsValue, builtins::promise::PromiseState, js_string, object::builtins::JsPromise};
use serde::{Deserialize, Serialize};
use serde_json::Value;
use std::collections::{BTreeMap, BTreeSet};
use std::rc::Rc;

#[derive(Serialize, Deserialize, Clone, Debug)]
pub struct Import {
    pub target: usize,
    /// 0 `import {v as v_j}`, 1 `import * as ns_j`, 2 bare `import`, 3 `export {v as r_j} from`, 4 `export * from`,
    /// 5 `export * as sub_i_j from`, 6 `import d_j from` (default export),
    /// 7 `import {nope_i_j} from` (a name the target does not export: linking the importer fails)
    pub kind: u8,
}

#[derive(Serialize, Deserialize, Clone, Debug)]
pub struct ModSpec {
    pub imports: Vec<Import>,
    /// top-level awaits before 'mid'
    pub awaits: u8,
    /// 0 `await null`, 1 await a thenable, 2 await a resolved promise
    pub await_kind: u8,
    /// 0 none, 1 right after 'start', 2 after the awaits
    pub throws: u8,
    pub dynamic: Option<usize>,
}

#[derive(Serialize, Deserialize, Clone, Debug)]
pub struct Sched {
    pub latencies: Vec<u32>,
    pub poll_order: Vec<u32>,
    pub sim_exec: bool,
}

#[derive(Serialize, Deserialize, Clone, Debug)]
pub struct Scenario {
    pub mods: Vec<ModSpec>,
    pub entry: usize,
    pub second_entry: usize,
    /// module index -> 1 fetch error, 2 parse error
    pub faults: BTreeMap<usize, u8>,
    /// module index -> the fault hits only the first k requests (absent = permanent)
    #[serde(default)]
    pub fault_times: BTreeMap<usize, u32>,
    pub scheds: Vec<Sched>,
    /// committed expectation (trace, outcome) of the three phases, for graphs of the corpus
    #[serde(default)]
    pub expected: Option<Vec<(Vec<String>, String)>>,
    #[serde(default)]
    pub name: String,
}

/// Graphs with top-level await / cycles / throws with committed per-phase traces
/// (tools/gen_c17_expected.py): the exact oracle where the synchronous reference model stops.
pub fn corpus() -> &'static Vec<(String, Vec<ModSpec>, usize, usize, Vec<(Vec<String>, String)>)> {
    use std::sync::OnceLock;
    static L: OnceLock<Vec<(String, Vec<ModSpec>, usize, usize, Vec<(Vec<String>, String)>)>> = OnceLock::new();
    L.get_or_init(|| {
        let v: Value = serde_json::from_str(include_str!("../../../../corpus/c17/expected.json")).expect("expected.json parses");
        v["graphs"]
            .as_array()
            .expect("graphs")
            .iter()
            .map(|g| {
                (
                    g["name"].as_str().unwrap_or("").to_string(),
                    serde_json::from_value(g["mods"].clone()).expect("mods"),
                    g["entry"].as_u64().unwrap_or(0) as usize,
                    g["second_entry"].as_u64().unwrap_or(0) as usize,
                    serde_json::from_value(g["expected"].clone()).expect("expected"),
                )
            })
            .collect()
    })
}

pub fn render(i: usize, m: &ModSpec) -> String {
    let mut s = String::new();
    let mut reads = String::new();
    let mut late = String::new();
    let mut seen = BTreeSet::new();
    for im in &m.imports {
        let j = im.target;
        if !seen.insert((j, im.kind)) {
            continue;
        }
        match im.kind {
            0 => {
                s.push_str(&format!("import {{v as v_{j}}} from 'm{j}';\n"));
                reads.push_str(&format!("try {{ print('m{i} reads m{j}.v', v_{j}); }} catch (e) {{ print('m{i} reads m{j}.v', e.name); }}\n"));
            }
            1 => {
                s.push_str(&format!("import * as ns_{j} from 'm{j}';\n"));
                reads.push_str(&format!("try {{ print('m{i} ns m{j}', ns_{j}.v, Object.keys(ns_{j}).join('|')); }} catch (e) {{ print('m{i} ns m{j}', e.name); }}\n"));
            }
            2 => s.push_str(&format!("import 'm{j}';\n")),
            3 => s.push_str(&format!("export {{v as r_{i}_{j}}} from 'm{j}';\n")),
            5 => s.push_str(&format!("export * as sub_{i}_{j} from 'm{j}';\n")),
            7 => s.push_str(&format!("import {{nope_{i}_{j}}} from 'm{j}';\n")),
            6 => {
                s.push_str(&format!("import d_{j} from 'm{j}';\n"));
                reads.push_str(&format!("try {{ print('m{i} default m{j}', d_{j}); }} catch (e) {{ print('m{i} default m{j}', e.name); }}\n"));
                late.push_str(&format!("d_{j}, "));
            }
            _ => s.push_str(&format!("export * from 'm{j}';\n")),
        }
        if im.kind == 0 {
            late.push_str(&format!("v_{j}, "));
        }
        if im.kind == 1 {
            late.push_str(&format!("ns_{j}.v, Object.keys(ns_{j}).join('|'), "));
        }
    }
    s.push_str(&format!("print('start m{i}');\nexport let v = 'm{i}:0';\nexport function bump(){{ v = 'm{i}:1'; }}\nexport default 'm{i}:d';\n"));
    // `shared` is exported by every second module: through two different `export *` paths the
    // name is ambiguous (left out of namespaces), through a diamond to the same module it is not
    if i % 2 == 0 {
        s.push_str(&format!("export let shared = 'm{i}:s';\n"));
    }
    if !late.is_empty() {
        // imported bindings are live: read again from a promise job, after everything has run
        s.push_str(&format!("Promise.resolve().then(function(){{ try {{ print('m{i} late', {late}'.'); }} catch (e) {{ print('m{i} late', e.name); }} }});\n"));
    }
    s.push_str(&reads);
    if m.throws == 1 {
        s.push_str(&format!("throw new Error('m{i} throws');\n"));
    }
    for _ in 0..m.awaits {
        s.push_str(match m.await_kind {
            0 => "await null;\n",
            1 => "await {then(r){ r(); }};\n",
            _ => "await Promise.resolve(1);\n",
        });
    }
    s.push_str(&format!("print('mid m{i}');\n"));
    if m.throws == 2 {
        s.push_str(&format!("throw new Error('m{i} throws');\n"));
    }
    s.push_str("bump();\n");
    if let Some(d) = m.dynamic {
        s.push_str(&format!(
            "import('m{d}').then(function(ns){{ print('m{i} dyn m{d}', typeof ns.v); }}, function(e){{ print('m{i} dyn m{d} failed', e.name); }});\n"
        ));
    }
    s.push_str(&format!("print('end m{i}');\n"));
    s
}

fn schedules(rng: &mut Rng, tier: Tier, n: usize) -> Vec<Sched> {
    let ns = if tier == Tier::Quick { 3 } else { 5 };
    (0..ns)
        .map(|s| Sched {
            latencies: (0..n).map(|_| if s == 0 { 0 } else { rng.below(6) as u32 }).collect(),
            poll_order: (0..rng.range(0, 12)).map(|_| rng.below(4) as u32).collect(),
            sim_exec: s != 1,
        })
        .collect()
}

pub fn generate(rng: &mut Rng, tier: Tier) -> Value {
    if rng.chance(1, 4) {
        let c = corpus();
        let (name, mods, entry, second_entry, expected) = &c[rng.idx(c.len())];
        let scheds = schedules(rng, tier, mods.len());
        let sc = Scenario {
            mods: mods.clone(),
            entry: *entry,
            second_entry: *second_entry,
            faults: BTreeMap::new(),
            fault_times: BTreeMap::new(),
            scheds,
            expected: Some(expected.clone()),
            name: name.clone(),
        };
        return serde_json::to_value(sc).expect("ser");
    }
    let n = rng.range(1, if tier == Tier::Quick { 6 } else { 8 }) as usize;
    let tla = rng.chance(2, 5);
    let throwing = rng.chance(1, 3);
    let dynamic = rng.chance(1, 8);
    let edge_density = rng.range(1, 3);
    let mut mods = vec![];
    for i in 0..n {
        let mut imports = vec![];
        let k = rng.range(0, edge_density.min(n as u64 + 1));
        for _ in 0..k {
            // bias: forward edges, back edges (cycles), self imports
            let target = match rng.below(10) {
                0 => i,
                1..=3 => rng.idx(n),
                _ => (i + 1 + rng.idx(n)) % n,
            };
            imports.push(Import { target, kind: *rng.pick(&[0u8, 0, 0, 1, 1, 2, 3, 4, 4, 5, 6]) });
        }
        mods.push(ModSpec {
            imports,
            awaits: if tla && rng.chance(1, 3) { rng.range(1, 3) as u8 } else { 0 },
            await_kind: rng.below(3) as u8,
            throws: if throwing && rng.chance(1, 4) { rng.range(1, 2) as u8 } else { 0 },
            dynamic: if dynamic && rng.chance(1, 3) { Some(rng.idx(n)) } else { None },
        });
    }
    if rng.chance(1, 10) {
        // a link error: some module imports a name its target does not export
        let i = rng.idx(n);
        let target = rng.idx(n);
        let at = rng.idx(mods[i].imports.len() + 1);
        mods[i].imports.insert(at, Import { target, kind: 7 });
    }
    let mut faults = BTreeMap::new();
    let entry = rng.idx(n);
    let second_entry = rng.idx(n);
    let mut fault_times = BTreeMap::new();
    if rng.chance(1, 4) {
        // the entry modules are handed to the engine by the host itself, never fetched
        for _ in 0..rng.range(1, 2) {
            let f = rng.idx(n);
            if f != entry && f != second_entry {
                faults.insert(f, rng.range(1, 2) as u8);
                if rng.chance(1, 2) {
                    // transient: a later load of the same graph gets through
                    fault_times.insert(f, rng.range(1, 2) as u32);
                }
            }
        }
    }
    let scheds = schedules(rng, tier, n);
    let sc = Scenario { mods, entry, second_entry, faults, fault_times, scheds, expected: None, name: String::new() };
    serde_json::to_value(sc).expect("ser")
}

// ---------------------------------------------------------------------------------------------
// reference model (written from the specification text; shares nothing with boa)

#[derive(Clone, Debug, PartialEq)]
enum St {
    Evaluating,
    Ok,
    Err(String),
}

struct Model<'a> {
    sc: &'a Scenario,
    status: BTreeMap<usize, St>,
    dfs: BTreeMap<usize, usize>,
    anc: BTreeMap<usize, usize>,
    starts: Vec<usize>,
}

impl Model<'_> {
    /// [[RequestedModules]]: source order, deduplicated by specifier
    fn requested(&self, i: usize) -> Vec<usize> {
        let mut out = vec![];
        for im in &self.sc.mods[i].imports {
            if !out.contains(&im.target) {
                out.push(im.target);
            }
        }
        out
    }

    /// InnerModuleEvaluation ( module, stack, index ) for graphs without top-level await.
    fn inner(&mut self, i: usize, stack: &mut Vec<usize>, index: &mut usize) -> Result<(), String> {
        match self.status.get(&i) {
            Some(St::Ok) | Some(St::Evaluating) => return Ok(()),
            Some(St::Err(e)) => return Err(e.clone()),
            None => {}
        }
        self.status.insert(i, St::Evaluating);
        self.dfs.insert(i, *index);
        self.anc.insert(i, *index);
        *index += 1;
        stack.push(i);
        for d in self.requested(i) {
            self.inner(d, stack, index)?;
            match self.status.get(&d) {
                Some(St::Evaluating) => {
                    let a = self.anc[&i].min(self.anc[&d]);
                    self.anc.insert(i, a);
                }
                Some(St::Err(e)) => return Err(e.clone()),
                _ => {}
            }
        }
        // ExecuteModule
        self.starts.push(i);
        if self.sc.mods[i].throws != 0 {
            return Err(format!("m{i} throws"));
        }
        if self.anc[&i] == self.dfs[&i] {
            while let Some(m) = stack.pop() {
                self.status.insert(m, St::Ok);
                if m == i {
                    break;
                }
            }
        }
        Ok(())
    }

    /// Evaluate ( ): on an abrupt completion every module still on the stack records the error.
    fn evaluate(&mut self, entry: usize) -> Result<(), String> {
        let mut stack = vec![];
        let mut index = 0;
        let r = self.inner(entry, &mut stack, &mut index);
        if let Err(e) = &r {
            for m in stack {
                self.status.insert(m, St::Err(e.clone()));
            }
        }
        r
    }
}

// ---------------------------------------------------------------------------------------------
// execution

fn tarjan(sc: &Scenario) -> Vec<usize> {
    // component id per module (iterative-free simple version: n <= 8)
    let n = sc.mods.len();
    let mut reach = vec![vec![false; n]; n];
    for (i, m) in sc.mods.iter().enumerate() {
        reach[i][i] = true;
        for im in &m.imports {
            reach[i][im.target] = true;
        }
    }
    for k in 0..n {
        for i in 0..n {
            for j in 0..n {
                if reach[i][k] && reach[k][j] {
                    reach[i][j] = true;
                }
            }
        }
    }
    let mut comp = vec![usize::MAX; n];
    for i in 0..n {
        if comp[i] == usize::MAX {
            for j in 0..n {
                if reach[i][j] && reach[j][i] {
                    comp[j] = i;
                }
            }
        }
    }
    comp
}

fn reachable_from(sc: &Scenario, e: usize) -> BTreeSet<usize> {
    let mut seen = BTreeSet::new();
    let mut st = vec![e];
    while let Some(x) = st.pop() {
        if seen.insert(x) {
            for im in &sc.mods[x].imports {
                st.push(im.target);
            }
        }
    }
    seen
}

fn promise_outcome(p: &JsPromise, ctx: &mut Context) -> String {
    match p.state() {
        PromiseState::Pending => "pending".into(),
        PromiseState::Fulfilled(_) => "fulfilled".into(),
        PromiseState::Rejected(v) => {
            let msg = v
                .as_object()
                .and_then(|o| o.get(js_string!("message"), ctx).ok())
                .filter(|m| !m.is_undefined())
                .map_or_else(|| v.display().to_string(), |m: JsValue| m.display().to_string());
            format!("rejected:{}", msg.trim_matches('"'))
        }
    }
}

struct Out {
    phases: Vec<(Vec<String>, String)>,
    /// entry module and loader events of each phase
    phase_entry: Vec<usize>,
    phase_calls: Vec<Vec<LoaderEv>>,
    calls: Vec<LoaderEv>,
    problems: Vec<(String, String)>,
    delays: u64,
    fetch_errors: u64,
    parse_errors: u64,
    reorders: u64,
    polls: u64,
    turns: u64,
}

fn drain(ctx: &mut Context, sim: Option<&Rc<SimExecutor>>) -> Option<String> {
    let mut calls = 0;
    loop {
        let r = ctx.run_jobs();
        calls += 1;
        if let Err(e) = r {
            return Some(js::error_string(&e, ctx));
        }
        match sim {
            Some(s) if !s.is_empty() && calls < 10_000 => continue,
            _ => return None,
        }
    }
}

fn run_sched(sc: &Scenario, s: &Sched) -> Out {
    let loader = Rc::new(SimLoader::default());
    for (i, m) in sc.mods.iter().enumerate() {
        loader.sources.borrow_mut().insert(format!("m{i}"), render(i, m));
        loader.plans.borrow_mut().insert(
            format!("m{i}"),
            LoadPlan {
                latency: s.latencies.get(i).copied().unwrap_or(0),
                fault: sc.faults.get(&i).copied().unwrap_or(0),
                fault_times: sc.fault_times.get(&i).copied().unwrap_or(0),
            },
        );
    }
    let mut out = Out { phases: vec![], phase_entry: vec![], phase_calls: vec![], calls: vec![], problems: vec![], delays: 0, fetch_errors: 0, parse_errors: 0, reorders: 0, polls: 0, turns: 0 };
    let sim = if s.sim_exec {
        let e = Rc::new(SimExecutor::default());
        *e.poll_order.borrow_mut() = s.poll_order.iter().copied().collect();
        Some(e)
    } else {
        None
    };
    let (mut ctx, host) = match &sim {
        Some(e) => js::new_context::<SimExecutor, SimLoader>(Some(e.clone()), Some(loader.clone())),
        None => js::new_context::<Recording, SimLoader>(Some(Rc::new(Recording::default())), Some(loader.clone())),
    };
    // phases: evaluate entry, evaluate it again, evaluate the second entry; with loader faults the
    // host keeps retrying (a transient fault lets a later attempt through)
    let mut plan = vec![(0, sc.entry), (1, sc.entry), (2, sc.second_entry)];
    if !sc.faults.is_empty() {
        plan.extend([(3, sc.entry), (4, sc.second_entry), (5, sc.entry)]);
    }
    for (phase, e) in plan {
        let log_from = loader.log.borrow().len();
        let outcome = match loader.get_or_parse(&format!("m{e}"), &mut ctx) {
            Err(err) => format!("rejected:{}", js::error_string(&err, &mut ctx)),
            Ok(m) => {
                let p = m.load_link_evaluate(&mut ctx);
                if let Some(err) = drain(&mut ctx, sim.as_ref()) {
                    out.problems.push(("executor-error".into(), format!("phase {phase}: run_jobs returned {err}")));
                }
                promise_outcome(&p, &mut ctx)
            }
        };
        out.phases.push((host.trace.take(), outcome));
        out.phase_entry.push(e);
        out.phase_calls.push(loader.log.borrow()[log_from..].to_vec());
    }
    out.calls = loader.log.borrow().clone();
    out.delays = loader.delays_fired.get();
    out.fetch_errors = loader.fetch_errors.get();
    out.parse_errors = loader.parse_errors.get();
    if let Some(e) = &sim {
        out.reorders = e.poll_reorders.get();
        out.polls = e.polls.get();
        out.turns = e.turns.get();
    }
    out
}

fn starts(trace: &[String]) -> Vec<usize> {
    trace.iter().filter_map(|l| l.strip_prefix("start m").and_then(|n| n.parse().ok())).collect()
}

pub fn execute(v: &Value) -> RunReport {
    let mut sc: Scenario = serde_json::from_value(v.clone()).expect("scenario");
    let (e1, e2) = (sc.entry, sc.second_entry);
    sc.faults.retain(|k, _| *k != e1 && *k != e2);
    let sc = sc;
    let mut rep = RunReport::default();
    let n = sc.mods.len();
    let comp = tarjan(&sc);
    let any_dynamic = sc.mods.iter().any(|m| m.dynamic.is_some());
    let reach1 = reachable_from(&sc, sc.entry);
    let reach_all: BTreeSet<usize> = reach1.union(&reachable_from(&sc, sc.second_entry)).copied().collect();
    // link faults: modules that import a name their target does not export
    let bad: BTreeSet<usize> = (0..n).filter(|i| sc.mods[*i].imports.iter().any(|im| im.kind == 7)).collect();
    let bad_reach = |e: usize| reachable_from(&sc, e).iter().any(|m| bad.contains(m));
    let any_linkfault = reach_all.iter().any(|m| bad.contains(m));
    let fault_reach1 = sc.faults.keys().any(|f| reach1.contains(f)) || bad_reach(sc.entry);
    let any_fault = sc.faults.keys().any(|f| reach_all.contains(f)) || !sc.faults.is_empty() && any_dynamic;
    let tla_reach = reach_all.iter().any(|m| sc.mods[*m].awaits > 0);
    let exact = !tla_reach && !any_fault && !any_dynamic && !any_linkfault;
    let what = format!(
        "[{} modules, entry m{}, second m{}, tla={tla_reach}, faults={:?}, dynamic={any_dynamic}]",
        n, sc.entry, sc.second_entry, sc.faults
    );
    // model prediction for synchronous fault-free graphs
    let mut predicted: Option<(Vec<usize>, String, Vec<usize>, String)> = None;
    if exact {
        let mut m = Model { sc: &sc, status: BTreeMap::new(), dfs: BTreeMap::new(), anc: BTreeMap::new(), starts: vec![] };
        let r1 = m.evaluate(sc.entry);
        let s1 = m.starts.clone();
        m.starts.clear();
        let r2 = m.evaluate(sc.second_entry);
        let s2 = m.starts.clone();
        let f = |r: &Result<(), String>| match r {
            Ok(()) => "fulfilled".to_string(),
            Err(e) => format!("rejected:{e}"),
        };
        predicted = Some((s1, f(&r1), s2, f(&r2)));
    }
    let mut first: Option<Vec<(Vec<String>, String)>> = None;
    let mut fp = Fp::default();
    let mut sfp = Fp::default();
    for (si, s) in sc.scheds.iter().enumerate() {
        let o = run_sched(&sc, s);
        rep.execs += 1;
        let tag = format!("{what} schedule {si} {s:?}");
        for (c, d) in &o.problems {
            rep.violate(c.clone(), format!("{tag}: {d}"));
        }
        let all: Vec<String> = o.phases.iter().flat_map(|p| p.0.clone()).collect();
        // (d) bounded liveness: once the executor is idle every entry promise has settled
        for (pi, (_, outcome)) in o.phases.iter().enumerate() {
            if outcome == "pending" {
                rep.violate("never-settles", format!("{tag}: phase {pi}: the evaluation promise is still pending after the executor went idle; trace {all:?}"));
            }
        }
        // (b) once only
        let st = starts(&all);
        let mut seen = BTreeSet::new();
        for m in &st {
            if !seen.insert(*m) {
                rep.violate("module-ran-twice", format!("{tag}: m{m} started twice; trace {all:?}"));
            }
        }
        // (b) dependency partial order
        for (pos, line) in all.iter().enumerate() {
            if let Some(x) = line.strip_prefix("start m").and_then(|n| n.parse::<usize>().ok()) {
                for im in &sc.mods[x].imports {
                    let d = im.target;
                    if comp[d] != comp[x] && !all[..pos].iter().any(|l| l == &format!("end m{d}")) {
                        rep.violate("dependency-order", format!("{tag}: m{x} started before its dependency m{d} finished; trace {all:?}"));
                    }
                }
            }
        }
        // re-evaluation runs nothing and returns the recorded outcome. A phase whose loading
        // failed recorded nothing (the host may retry); every other outcome is final.
        let load_failed: Vec<bool> =
            o.phase_calls.iter().map(|c| c.iter().any(|e| matches!(e, LoaderEv::Done { ok: false, .. }))).collect();
        if !any_dynamic {
            for j in 1..o.phases.len() {
                let Some(i) = (0..j).rev().find(|i| o.phase_entry[*i] == o.phase_entry[j] && !load_failed[*i] && o.phases[*i].1 != "pending") else {
                    continue;
                };
                if !o.phases[j].0.is_empty() {
                    rep.violate("re-evaluation-ran-code", format!("{tag}: phase {j} evaluates m{} again (phase {i} ended {:?}) and printed {:?}", o.phase_entry[j], o.phases[i].1, o.phases[j].0));
                }
                if o.phases[j].1 != o.phases[i].1 {
                    rep.violate("re-evaluation-outcome", format!("{tag}: m{}: phase {i} {:?}, phase {j} {:?}", o.phase_entry[j], o.phases[i].1, o.phases[j].1));
                }
            }
            // a phase that failed to load runs nothing; a fulfilled phase has run every module
            // its entry reaches
            for (j, (tr, outcome)) in o.phases.iter().enumerate() {
                if load_failed[j] && !starts(tr).is_empty() {
                    rep.violate("evaluated-despite-load-failure", format!("{tag}: phase {j}: modules started although loading failed: {tr:?}"));
                }
                if outcome == "fulfilled" {
                    let done: BTreeSet<usize> = o.phases[..=j].iter().flat_map(|p| p.0.iter()).filter_map(|l| l.strip_prefix("end m").and_then(|n| n.parse().ok())).collect();
                    for m in reachable_from(&sc, o.phase_entry[j]) {
                        if !done.contains(&m) {
                            rep.violate("fulfilled-before-dependency-ran", format!("{tag}: phase {j} (entry m{}) fulfilled although m{m} never finished; trace {all:?}", o.phase_entry[j]));
                        }
                    }
                }
            }
        }
        // loader: a (referrer, specifier) pair that was answered with a module is never requested
        // again ([[LoadedModules]] records it whatever happened to the rest of the load); only a
        // pair whose request failed may be retried by a later load
        if !any_dynamic {
            let mut answered = BTreeSet::new();
            let mut in_flight = BTreeSet::new();
            for c in &o.calls {
                match c {
                    LoaderEv::Call { referrer, specifier } => {
                        let pair = (referrer.clone(), specifier.clone());
                        if answered.contains(&pair) || !in_flight.insert(pair) {
                            rep.violate("loader-asked-twice", format!("{tag}: ({referrer}, {specifier}) requested again although it was answered or is in flight: {:?}", o.calls));
                        }
                    }
                    LoaderEv::Done { referrer, specifier, ok } => {
                        let pair = (referrer.clone(), specifier.clone());
                        in_flight.remove(&pair);
                        if *ok {
                            answered.insert(pair);
                        }
                    }
                }
            }
        }
        // bounded liveness of dynamic imports: a module that reached its end has issued its import();
        // once the executor is idle that promise has settled one way or the other
        for (i, m) in sc.mods.iter().enumerate() {
            if let Some(d) = m.dynamic {
                if all.iter().any(|l| l == &format!("end m{i}")) && !all.iter().any(|l| l.starts_with(&format!("m{i} dyn m{d}"))) {
                    rep.violate("dynamic-import-never-settles", format!("{tag}: m{i} finished but its import('m{d}') neither fulfilled nor rejected; trace {all:?}"));
                }
            }
        }
        // a graph that cannot be linked runs nothing and reports the error, every time it is tried
        for (j, (tr, outcome)) in o.phases.iter().enumerate() {
            if bad_reach(o.phase_entry[j]) {
                if !starts(tr).is_empty() {
                    rep.violate("evaluated-despite-link-failure", format!("{tag}: phase {j} (entry m{}): modules started although an import cannot be resolved: {tr:?}; outcomes of all phases {:?}", o.phase_entry[j], o.phases.iter().map(|p| p.1.clone()).collect::<Vec<_>>()));
                }
                if !outcome.starts_with("rejected:") {
                    rep.violate("link-error-not-reported", format!("{tag}: phase {j} (entry m{}): outcome {outcome:?} although an import cannot be resolved", o.phase_entry[j]));
                }
            }
        }
        // (c) errors
        if !any_dynamic {
            let thrower_reach1 = reach1.iter().any(|m| sc.mods[*m].throws != 0);
            let must_reject = thrower_reach1 || fault_reach1;
            let rejected = o.phases[0].1.starts_with("rejected:");
            if o.phases[0].1 != "pending" && must_reject != rejected {
                rep.violate("error-propagation", format!("{tag}: reachable thrower/fault = {must_reject}, entry promise {:?}; trace {all:?}", o.phases[0].1));
            }
            if rejected && !fault_reach1 {
                let msg = o.phases[0].1.trim_start_matches("rejected:");
                let ok = reach1.iter().any(|m| sc.mods[*m].throws != 0 && msg == format!("m{m} throws"));
                if !ok {
                    rep.violate("wrong-error", format!("{tag}: rejected with {msg:?}, which no reachable module throws"));
                }
            }
        }
        // (a) exact order against the model
        if let Some((s1, r1, s2, r2)) = &predicted {
            let g1 = starts(&o.phases[0].0);
            let g2 = starts(&o.phases[2].0);
            if &g1 != s1 || &o.phases[0].1 != r1 {
                rep.violate("evaluation-order", format!("{tag}: model starts {s1:?} {r1}, engine {g1:?} {}; trace {all:?}", o.phases[0].1));
            } else if &g2 != s2 || &o.phases[2].1 != r2 {
                rep.violate("evaluation-order-second-entry", format!("{tag}: model starts {s2:?} {r2}, engine {g2:?} {}; trace {all:?}", o.phases[2].1));
            }
        }
        // (a') committed expectation for graphs of the corpus (top-level await, cycles, throws)
        if let Some(exp) = &sc.expected {
            rep.probe("corpus_graph_checked", 1);
            for (pi, (etrace, eout)) in exp.iter().enumerate() {
                let Some((gtrace, gout)) = o.phases.get(pi) else { break };
                if gtrace != etrace || gout != eout {
                    rep.violate(
                        "evaluation-order-corpus",
                        format!("{tag}: {} phase {pi}: expected {etrace:?} {eout}, engine {gtrace:?} {gout}", sc.name),
                    );
                    break;
                }
            }
        }
        // cross-schedule equality: evaluation does not depend on load order
        if !any_fault && !any_dynamic {
            match &first {
                None => first = Some(o.phases.clone()),
                Some(f) => {
                    if f != &o.phases {
                        rep.violate("schedule-divergence", format!("{tag}: {:?} vs first schedule {:?}", o.phases, f));
                    }
                }
            }
        }
        rep.fault("loader.delay", o.delays);
        rep.fault("loader.fetch_error", o.fetch_errors);
        rep.fault("loader.parse_error", o.parse_errors);
        rep.fault("exec.poll_reorder", o.reorders);
        rep.fault("module.throw", all.iter().filter(|l| l.starts_with("start m")).filter(|l| l.strip_prefix("start m").and_then(|n| n.parse::<usize>().ok()).is_some_and(|m| sc.mods[m].throws != 0)).count() as u64);
        rep.probe("loader_calls", o.calls.len() as u64 / 2);
        rep.probe("executor_polls", o.polls);
        rep.steps += o.turns;
        for l in &all {
            fp.add(l);
        }
        for p in &o.phases {
            fp.add(&p.1);
        }
        sfp.add_u64(o.delays);
        sfp.add_u64(o.reorders);
        sfp.add(&format!("{:?}", s.latencies));
    }
    let cyclic = (0..n).any(|i| (0..n).any(|j| i != j && comp[i] == comp[j]));
    rep.probe("graph_with_cycle", u64::from(cyclic));
    rep.probe("graph_with_tla", u64::from(tla_reach));
    rep.probe("graph_with_tla_and_cycle", u64::from(tla_reach && cyclic));
    rep.probe("exact_model_checked", u64::from(exact));
    rep.probe("async_module_waited_on_2_dependencies", u64::from(sc.mods.iter().any(|m| m.imports.iter().filter(|im| sc.mods[im.target].awaits > 0).count() >= 2)));
    rep.fingerprint = fp.0;
    rep.sched_fp = sfp.0;
    rep.nontrivial = rep.faults.values().sum::<u64>() > 0;
    rep.shape = format!(
        "n{n}e{}t{}x{}f{}c{}",
        sc.mods.iter().map(|m| m.imports.len()).sum::<usize>(),
        u8::from(tla_reach),
        sc.mods.iter().filter(|m| m.throws != 0).count(),
        sc.faults.len(),
        u8::from(cyclic)
    );
    rep
}

pub fn shrink(v: &Value) -> Vec<Value> {
    let sc: Scenario = serde_json::from_value(v.clone()).expect("scenario");
    let mut out = vec![];
    for i in 0..sc.scheds.len() {
        if sc.scheds.len() > 1 {
            let mut s = sc.clone();
            s.scheds.remove(i);
            out.push(s);
        }
    }
    if sc.expected.is_some() {
        // the committed expectation belongs to this very graph: only schedules can be dropped
        return out.into_iter().map(|s| serde_json::to_value(s).expect("ser")).collect();
    }
    // remove a module (retarget edges)
    let n = sc.mods.len();
    for r in (0..n).rev() {
        if n > 1 && r != sc.entry && r != sc.second_entry {
            let mut s = sc.clone();
            s.mods.remove(r);
            let fix = |t: usize| if t > r { t - 1 } else { t };
            for m in &mut s.mods {
                m.imports.retain(|im| im.target != r);
                for im in &mut m.imports {
                    im.target = fix(im.target);
                }
                m.dynamic = m.dynamic.filter(|d| *d != r).map(fix);
            }
            s.entry = fix(s.entry);
            s.second_entry = fix(s.second_entry);
            s.faults = s.faults.iter().filter(|(k, _)| **k != r).map(|(k, v)| (fix(*k), *v)).collect();
            for sch in &mut s.scheds {
                if r < sch.latencies.len() {
                    sch.latencies.remove(r);
                }
            }
            out.push(s);
        }
    }
    for i in 0..n {
        for e in 0..sc.mods[i].imports.len() {
            let mut s = sc.clone();
            s.mods[i].imports.remove(e);
            out.push(s);
        }
        if sc.mods[i].awaits > 0 {
            let mut s = sc.clone();
            s.mods[i].awaits -= 1;
            out.push(s);
        }
        if sc.mods[i].throws != 0 {
            let mut s = sc.clone();
            s.mods[i].throws = 0;
            out.push(s);
        }
        if sc.mods[i].dynamic.is_some() {
            let mut s = sc.clone();
            s.mods[i].dynamic = None;
            out.push(s);
        }
    }
    if sc.second_entry != sc.entry {
        let mut s = sc.clone();
        s.second_entry = s.entry;
        out.push(s);
    }
    for (si, sch) in sc.scheds.iter().enumerate() {
        if sch.latencies.iter().any(|l| *l != 0) {
            let mut s = sc.clone();
            s.scheds[si].latencies.iter_mut().for_each(|l| *l = 0);
            out.push(s);
        }
    }
    out.into_iter().map(|s| serde_json::to_value(s).expect("ser")).collect()
}

pub const PROP: Prop = Prop {
    id: "C17",
    level: "exploration",
    runs_quick: 40_000,
    runs_thorough: 400_000,
    generate,
    execute,
    shrink,
    rule: "one run = (1 of 4) one of 1123 committed graphs (same generator, fault-free, half of them forced to contain top-level await) whose per-phase traces and outcomes were fixed at authoring time — the exact oracle for asynchronous graphs, where the synchronous reference model stops —, or (3 of 4) one directed module graph over 1..6 (quick) / 1..8 (thorough) modules (seeded edges biased to cycles, self-imports and shared leaves; named, namespace, default, bare, re-export, namespace re-export and export-star imports, a name that is ambiguous through two star paths, imported bindings read again from a promise job after everything ran; optional top-level await of three kinds; optional throw before/after the awaits; optional dynamic import(); injected fetch or parse errors on 1..2 modules in 1 run of 4, permanent or hitting only the first 1..2 requests), in 1 graph of 10 an import of a name the target does not export (link error); an entry module, a re-evaluation of it and a second entry (with faults: three further attempts, so that a load that failed is retried and, once the transient faults are used up, gets through), executed under 3 (quick) / 5 (thorough) loader schedules (latency 0..5 polls per request, seeded poll order of pending load jobs) on the stub executor and on the real SimpleJobExecutor; non-trivial = a loader delay, poll reorder, loader fault or module throw fired; distinct = distinct (graph shape signature, latencies, delays and reorders fired)",
    real: &["module records: parse, load, link, evaluate incl. async evaluation and cycles", "namespace objects, live bindings", "SimpleJobExecutor in one schedule per run", "Module::parse (called by the stub loader)"],
    stub: &["SimLoader (host side of the ModuleLoader seam: latency, completion order, fetch/parse faults)", "SimExecutor (seeded poll order of pending load jobs)", "reference model of InnerModuleEvaluation for synchronous graphs"],
    assumptions: &[
        "exact evaluation order and error are predicted only for graphs without top-level await, loader faults and dynamic import; all other graphs are checked for once-only, dependency partial order, error propagation, loader once-per-pair, re-evaluation and liveness",
        "with loader faults the entry promise may reject with any one of the injected errors",
    ],
    nondeterminism_is_violation: false,
    hang_is_violation: true,
};
