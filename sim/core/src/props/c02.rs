//! C02 — no input makes the engine fail internally (no panic, abort or EnginePanic).
//!
//! What the simulator adds to plain input fuzzing is the fault / history axis: inputs
//! (kernels, harvested snippets, sabotage programs, token-level mutants of all of them) are run
//! on a fresh context or as entry n of a reused context that has already survived failed
//! entries, through `Source::from_bytes` or a faulty `io::Read`, under a swarm of: tiny limit
//! triples (so that engine-internal calls made by builtins hit a limit in the middle of
//! "infallible" steps), collection schedules incl. every allocation, budgeted evaluation with
//! collections at yields, refused string compilation, a shrunken buffer cap, jobs drained under
//! limits, module evaluation with loader faults.
//! Oracle: every entry ends in a value, a JavaScript exception or a RuntimeLimitError; no panic
//! (caught by the worker), no abort (seen by the orchestrator), no EnginePanic; the context
//! still answers `1+1` afterwards.

use crate::harness::{Prop, RunReport, Tier};
use crate::js::{self, GcPolicy};
use crate::kernels;
use crate::props::c20::SABOTAGE;
use crate::rng::{Fp, Rng};
use crate::seams::{LoadPlan, Recording, SimLoader};
use boa_engine::{Source, vm::RuntimeLimits};
use serde::{Deserialize, Serialize};
use serde_json::Value;
use std::io::Read;
use std::rc::Rc;

#[derive(Serialize, Deserialize, Clone, Debug, Default)]
pub struct ReaderPlan {
    /// bytes per read call (0 = whole buffer)
    pub chunk: usize,
    /// every n-th call fails with ErrorKind::Interrupted (0 = never)
    pub eintr_every: u32,
    /// hard I/O error once this many bytes were delivered
    pub error_at: Option<usize>,
    /// EOF after this many bytes (may cut a UTF-8 sequence)
    pub truncate_at: Option<usize>,
}

#[derive(Serialize, Deserialize, Clone, Debug)]
pub struct Entry {
    /// source bytes as lossless latin-1 style escapes: valid UTF-8 text is stored as is
    pub src: String,
    /// raw bytes when the source is not valid UTF-8
    pub raw: Option<Vec<u8>>,
    pub reader: Option<ReaderPlan>,
    pub limits: Option<(u64, usize, usize)>,
    /// 0 eval, n>0 budgeted eval, u32::MAX = evaluate as a module through the simulated loader
    pub mode: u32,
    pub deny_compile: bool,
    pub buffer_cap: u64,
    /// when set, the entry is these UTF-16 code units fed through `Source::from_utf16`
    /// (may contain unpaired surrogates, also as the very last unit)
    #[serde(default)]
    pub utf16: Option<Vec<u16>>,
}

#[derive(Serialize, Deserialize, Clone, Debug)]
pub struct Scenario {
    pub entries: Vec<Entry>,
    /// one context for the whole history, or a fresh one per entry
    pub reuse: bool,
    /// 0 never, k = collect at every k-th allocation, u64::MAX = shipped behaviour
    pub gc_every: u64,
    pub gc_at_yields: bool,
    /// module loader fault for module entries: 0 none, 1 fetch, 2 parse
    pub loader_fault: u8,
}

struct FaultyReader {
    data: Vec<u8>,
    pos: usize,
    calls: u32,
    plan: ReaderPlan,
    fired: [u64; 4],
}

impl Read for FaultyReader {
    fn read(&mut self, buf: &mut [u8]) -> std::io::Result<usize> {
        self.calls += 1;
        if self.plan.eintr_every > 0 && self.calls % self.plan.eintr_every == 0 {
            self.fired[1] += 1;
            return Err(std::io::Error::new(std::io::ErrorKind::Interrupted, "EINTR"));
        }
        if let Some(e) = self.plan.error_at {
            if self.pos >= e {
                self.fired[2] += 1;
                return Err(std::io::Error::other("SIM: disk error"));
            }
        }
        let end = self.plan.truncate_at.map_or(self.data.len(), |t| t.min(self.data.len()));
        if self.pos >= end {
            if self.plan.truncate_at.is_some() {
                self.fired[3] += 1;
            }
            return Ok(0);
        }
        let mut n = (end - self.pos).min(buf.len());
        if self.plan.chunk > 0 {
            n = n.min(self.plan.chunk);
            self.fired[0] += 1;
        }
        if let Some(e) = self.plan.error_at {
            n = n.min(e.saturating_sub(self.pos)).max(1).min(end - self.pos);
        }
        buf[..n].copy_from_slice(&self.data[self.pos..self.pos + n]);
        self.pos += n;
        Ok(n)
    }
}

// ---------------------------------------------------------------------------------------------
// input generation

fn tokenize(s: &str) -> Vec<String> {
    let mut out = vec![];
    let cs: Vec<char> = s.chars().collect();
    let mut i = 0;
    while i < cs.len() {
        let c = cs[i];
        let start = i;
        if c.is_alphanumeric() || c == '_' || c == '$' {
            while i < cs.len() && (cs[i].is_alphanumeric() || cs[i] == '_' || cs[i] == '$') {
                i += 1;
            }
        } else if c == '\'' || c == '"' || c == '`' {
            i += 1;
            while i < cs.len() && cs[i] != c {
                if cs[i] == '\\' {
                    i += 1;
                }
                i += 1;
            }
            i = (i + 1).min(cs.len());
        } else if c.is_whitespace() {
            while i < cs.len() && cs[i].is_whitespace() {
                i += 1;
            }
        } else {
            i += 1;
        }
        out.push(cs[start..i.min(cs.len())].iter().collect());
    }
    out
}

const SPICE: &[&str] = &[
    "{", "}", "(", ")", "[", "]", ";", ",", "=>", "...", "?.", "??=", "**", "`", "${", "/", "/=", "#x", "yield", "await", "async", "function", "class", "extends", "super", "new.target",
    "import.meta", "import(", "static", "get", "set", "let", "const", "var", "of", "in", "instanceof", "typeof", "void", "delete", "this", "null", "0x", "1e", "1n", ".5", "\\u{", "\\u0041",
    "/*", "*/", "//", "<!--", "-->", "'", "\"", "\u{2028}", "\u{FEFF}", "\u{1F600}", "\u{0}", "eval", "arguments", "with", "debugger", "label:", "break label", "continue", "return", "throw",
    "try{", "}catch{", "}finally{", "switch(", "case", "default:", "do", "while(", "for(", "for await(", "if(", "else", "0", "-0", "NaN", "Infinity", "__proto__", "constructor", "prototype",
];

fn mutate(rng: &mut Rng, base: &str, other: &str) -> String {
    let mut t = tokenize(base);
    let n = rng.range(1, 6);
    for _ in 0..n {
        if t.is_empty() {
            break;
        }
        let i = rng.idx(t.len());
        match rng.below(9) {
            0 => {
                t.remove(i);
            }
            1 => {
                let x = t[i].clone();
                t.insert(i, x);
            }
            2 => {
                let j = rng.idx(t.len());
                t.swap(i, j);
            }
            3 => {
                let o = tokenize(other);
                if !o.is_empty() {
                    let a = rng.idx(o.len());
                    let b = (a + rng.range(1, 12) as usize).min(o.len());
                    for (k, x) in o[a..b].iter().enumerate() {
                        t.insert((i + k).min(t.len()), x.clone());
                    }
                }
            }
            4 => {
                t.truncate(i);
            }
            5 => {
                let depth = rng.range(1, 64) as usize;
                let (o, c) = *rng.pick(&[("(", ")"), ("[", "]"), ("{", "}"), ("(function(){", "})()"), ("`${", "}`"), ("[...", "]"), ("(async()=>{", "})()")]);
                let inner = t[i].clone();
                t[i] = format!("{}{}{}", o.repeat(depth), inner, c.repeat(depth));
            }
            6 => {
                t.insert(i, (*rng.pick(SPICE)).to_string());
            }
            7 => {
                t[i] = (*rng.pick(SPICE)).to_string();
            }
            _ => {
                let a = i;
                let b = (a + rng.range(1, 8) as usize).min(t.len());
                t.drain(a..b);
            }
        }
    }
    t.concat()
}

/// UTF-16 damage: unpaired surrogates anywhere, in particular as the last code unit.
fn damage_utf16(rng: &mut Rng, units: &mut Vec<u16>) {
    for _ in 0..rng.range(1, 3) {
        let lone = *rng.pick(&[0xD800u16, 0xD83D, 0xDBFF, 0xDC00, 0xDE00, 0xDFFF]);
        match rng.below(6) {
            0 | 1 => units.push(lone),
            2 => {
                let at = rng.idx(units.len() + 1);
                units.insert(at, lone);
            }
            3 => {
                // cut right behind the first half of a real pair
                units.extend([0xD83D, 0xDE00]);
                units.pop();
            }
            4 => {
                units.extend("//".encode_utf16());
                units.push(lone);
            }
            _ => {
                let at = rng.idx(units.len() + 1);
                units.truncate(at);
                units.push(lone);
            }
        }
    }
}

/// The code units as a JavaScript string literal (everything but plain ASCII as \uXXXX, so that
/// unpaired surrogates survive and reach the parser as a UTF-16 source through eval / Function).
fn js_string_literal(units: &[u16]) -> String {
    let mut out = String::from("\"");
    for &u in units {
        match u {
            0x22 => out.push_str("\\\""),
            0x5C => out.push_str("\\\\"),
            0x20..=0x7E => out.push(u as u8 as char),
            _ => out.push_str(&format!("\\u{u:04X}")),
        }
    }
    out.push('"');
    out
}

/// Hand-written snippets of valid-but-odd syntax and boundary arguments of builtins
/// (`corpus/c02/syntax_corners.js`, one snippet per `//# name` header).
pub fn corners() -> &'static Vec<(String, String)> {
    use std::sync::OnceLock;
    static L: OnceLock<Vec<(String, String)>> = OnceLock::new();
    L.get_or_init(|| {
        let text = include_str!("../../../../corpus/c02/syntax_corners.js");
        let mut out: Vec<(String, String)> = vec![];
        for line in text.lines() {
            if let Some(name) = line.strip_prefix("//# ") {
                out.push((name.trim().to_string(), String::new()));
            } else if let Some(last) = out.last_mut() {
                last.1.push_str(line);
                last.1.push('\n');
            }
        }
        out
    })
}

fn base_program(rng: &mut Rng) -> String {
    match rng.below(10) {
        0..=3 => {
            let (k, _) = kernels::compose(rng, "spdw", 1);
            k[0].clone()
        }
        4..=6 => {
            let h = kernels::harvest();
            let g = &h[rng.idx(h.len())];
            g.1[rng.idx(g.1.len())].clone()
        }
        7 => (*rng.pick(SABOTAGE)).to_string(),
        8 => {
            if rng.chance(1, 2) {
                let l = crate::props::c16::litmus();
                l[rng.idx(l.len())].1.clone()
            } else {
                let g = crate::props::c16::generated();
                g[rng.idx(g.len())].1.clone()
            }
        }
        _ => {
            // engine-internal calls under poisoned intrinsics
            format!(
                "{}\n{}",
                rng.pick(SABOTAGE),
                rng.pick(&[
                    "[1,2,3].map(function(x){ return x; }); new Map([[1,2]]); Array.from('abc'); Object.assign({}, {a:1}); JSON.stringify({a:[1]}); new Set([1]).forEach(function(){}); Promise.all([1]); `${{}}`; [...'ab'];",
                    "class A { static #p = 1; #q = 2; static { this.z = 1; } m(){ return this.#q; } } new A().m(); class B extends A { constructor(){ super(); } } new B(); for (const [k,v] of Object.entries({a:1})); var {x, ...r} = {x:1,y:2}; async function f(){ await 1; } f(); (function*(){ yield* [1,2]; })().next();",
                    "new Uint8Array(8).map(function(x){ return x; }); new ArrayBuffer(8, {maxByteLength: 16}).resize(12); new DataView(new ArrayBuffer(4)).getInt8(0); 'abc'.replace(/b/g, 'x'); 'a,b'.split(','); /(?<n>a)/.exec('a').groups.n; new Date(0).toISOString(); (123.456).toFixed(2); BigInt(10)**20n; Symbol('s').description; Reflect.ownKeys({a:1});",
                    "try { null.x; } catch (e) { String(e); e.stack; } new Error('m', {cause: 1}).cause; new AggregateError([1], 'x').errors; Error.captureStackTrace && Error.captureStackTrace({}); structuredClone && 0; label: for (;;) { break label; } switch (1) { case 1: default: } with ({a:1}) { a; }",
                ])
            )
        }
    }
}

pub fn generate(rng: &mut Rng, tier: Tier) -> Value {
    let n = rng.range(1, if tier == Tier::Quick { 6 } else { 30 }) as usize;
    let limit_rate = *rng.pick(&[0u64, 1, 3, 6]);
    let mut entries = vec![];
    for _ in 0..n {
        let base = base_program(rng);
        let text = match rng.below(10) {
            // corner snippets run as written: their boundary constants (2**53-1, 2**32, ...) spliced
            // into other calls by the mutator would make natives loop or allocate for minutes, which
            // is the language's behaviour and not an engine failure
            0 => {
                let c = corners();
                c[rng.idx(c.len())].1.clone()
            }
            1..=3 => base,
            _ => {
                let other = base_program(rng);
                mutate(rng, &base, &other)
            }
        };
        let mut utf16 = None;
        let text = if rng.chance(1, 8) {
            // the text reaches the parser as UTF-16: directly, or as the string argument of eval /
            // Function (a second lexer entry point with its own end-of-input handling)
            let short = rng.chance(1, 2);
            let mut units: Vec<u16> = if short { rng.pick(&["7", "a", "'s'", "x=1", "/r/", "`t`", "1 //", "a,b", ""]).encode_utf16().collect() } else { text.encode_utf16().collect() };
            if rng.chance(3, 4) {
                damage_utf16(rng, &mut units);
            }
            match rng.below(6) {
                0 | 1 => {
                    utf16 = Some(units);
                    text
                }
                2 => format!("eval({});", js_string_literal(&units)),
                3 => format!("(0, eval)({});", js_string_literal(&units)),
                4 => format!("new Function({}, 'return 1');", js_string_literal(&units)),
                _ => format!("new Function('a', {})(1);", js_string_literal(&units)),
            }
        } else {
            text
        };
        let mut raw = None;
        if utf16.is_none() && rng.chance(1, 12) {
            // byte-level damage: may produce invalid UTF-8
            let mut b = text.clone().into_bytes();
            for _ in 0..rng.range(1, 4) {
                if b.is_empty() {
                    break;
                }
                let i = rng.idx(b.len());
                match rng.below(3) {
                    0 => b[i] = rng.below(256) as u8,
                    1 => {
                        b.remove(i);
                    }
                    _ => b.insert(i, *rng.pick(&[0x80u8, 0xC0, 0xE2, 0xF0, 0xFF, 0xED, 0xA0, 0x00])),
                }
            }
            if std::str::from_utf8(&b).is_err() {
                raw = Some(b);
            }
        }
        if utf16.is_none() && raw.is_none() && rng.chance(1, 30) {
            // ill-formed UTF-8 that decodes (bit-wise) to values above U+10FFFF or to surrogates, placed
            // where a code point is handed on: regular-expression classes, identifiers, strings, templates
            let bad: &[&[u8]] = &[&[0xF4, 0x90, 0x80, 0x80], &[0xF7, 0xBF, 0xBF, 0xBF], &[0xFF, 0xBF, 0xBF, 0xBF], &[0xF5, 0x80, 0x80, 0x80], &[0xED, 0xA0, 0x80], &[0xF8, 0x88, 0x80, 0x80, 0x80]];
            let b1 = *rng.pick(bad);
            let b2 = *rng.pick(bad);
            let mut out: Vec<u8> = vec![];
            let push = |out: &mut Vec<u8>, s: &str| out.extend_from_slice(s.as_bytes());
            match rng.below(6) {
                0 => { push(&mut out, "/["); out.extend_from_slice(b1); push(&mut out, "-"); out.extend_from_slice(b2); push(&mut out, "]/u.test('a');"); }
                1 => { push(&mut out, "/"); out.extend_from_slice(b1); push(&mut out, "+|[^"); out.extend_from_slice(b2); push(&mut out, "]/v.exec('abc');"); }
                2 => { push(&mut out, "var x"); out.extend_from_slice(b1); push(&mut out, " = 1; x"); out.extend_from_slice(b1); push(&mut out, ";"); }
                3 => { push(&mut out, "'"); out.extend_from_slice(b1); push(&mut out, "'.codePointAt(0) + `"); out.extend_from_slice(b2); push(&mut out, "${1}`.length;"); }
                4 => { push(&mut out, "new RegExp('["); out.extend_from_slice(b1); push(&mut out, "]', 'u').test('"); out.extend_from_slice(b2); push(&mut out, "');"); }
                _ => { push(&mut out, "/(?<n"); out.extend_from_slice(b1); push(&mut out, ">a)\\k<n"); out.extend_from_slice(b1); push(&mut out, ">/.test('aa');"); }
            }
            raw = Some(out);
        }
        let len = raw.as_ref().map_or(text.len(), Vec::len);
        let reader = if utf16.is_some() {
            None
        } else if raw.is_some() || rng.chance(1, 4) {
            Some(ReaderPlan {
                chunk: *rng.pick(&[0usize, 1, 1, 2, 3, 7, 64]),
                eintr_every: *rng.pick(&[0u32, 0, 2, 3, 10]),
                error_at: if rng.chance(1, 6) { Some(rng.idx(len + 1)) } else { None },
                truncate_at: if rng.chance(1, 6) { Some(rng.idx(len + 1)) } else { None },
            })
        } else {
            None
        };
        let limits = if rng.below(10) < limit_rate {
            Some((
                *rng.pick(&[0u64, 1, 3, 10, 100, 5000, u64::MAX]),
                *rng.pick(&[1usize, 2, 3, 4, 5, 6, 8, 12, 16, 64, 512]),
                *rng.pick(&[8usize, 16, 24, 32, 48, 64, 128, 512, 10240]),
            ))
        } else {
            None
        };
        let mode = match rng.below(10) {
            0..=5 => 0,
            6 | 7 => *rng.pick(&[1u32, 2, 3, 7, 50, 256]),
            _ => u32::MAX,
        };
        // module entries: half of them with top-level await before or after the body, so that the
        // asynchronous module machinery (ExecuteAsyncModule, its promise plumbing) runs under the faults
        let text = if mode == u32::MAX && raw.is_none() && rng.chance(1, 2) {
            match rng.below(3) {
                0 => format!("await null;\n{text}"),
                1 => format!("{text}\n;await dflt; await {{then(r){{ r(1); }}}};"),
                _ => format!("await 0;\n{text}\n;await Promise.resolve(d);"),
            }
        } else {
            text
        };
        entries.push(Entry {
            src: text,
            raw,
            reader,
            limits,
            mode,
            deny_compile: rng.chance(1, 10),
            buffer_cap: if rng.chance(1, 8) { *rng.pick(&[0u64, 1, 7, 8, 63, 1024]) } else { 0 },
            utf16,
        });
    }
    let sc = Scenario {
        entries,
        reuse: rng.chance(2, 3),
        gc_every: *rng.pick(&[u64::MAX, u64::MAX, 0, 1, 3, 17, 64]),
        gc_at_yields: rng.chance(1, 3),
        loader_fault: rng.below(4) as u8 % 3,
    };
    serde_json::to_value(sc).expect("ser")
}

// ---------------------------------------------------------------------------------------------

type Ctx = (boa_engine::Context, js::Host, Rc<SimLoader>, Rc<Recording>);

fn fresh() -> Ctx {
    let loader = Rc::new(SimLoader::default());
    let exec = Rc::new(Recording::default());
    let (c, h) = js::new_context::<Recording, SimLoader>(Some(exec.clone()), Some(loader.clone()));
    (c, h, loader, exec)
}

pub fn execute(v: &Value) -> RunReport {
    let sc: Scenario = serde_json::from_value(v.clone()).expect("scenario");
    let mut rep = RunReport::default();
    let policy = match sc.gc_every {
        u64::MAX => GcPolicy::Shipped,
        0 => GcPolicy::Never,
        k => GcPolicy::EveryK(k),
    };
    let inst = js::install_gc(&policy);
    let mut fp = Fp::default();
    let mut sfp = Fp::default();
    let mut cur: Option<Ctx> = None;
    for (i, e) in sc.entries.iter().enumerate() {
        if cur.is_none() || !sc.reuse {
            cur = Some(fresh());
            rep.execs += 1;
        }
        let (ctx, host, loader, exec) = cur.as_mut().expect("context");
        // jobs that keep enqueueing jobs would never let run_jobs return: cap each entry's drain
        exec.set_job_cap(20_000);
        exec.log.borrow_mut().clear();
        let mut rl = RuntimeLimits::default();
        rl.set_loop_iteration_limit(100_000);
        if let Some((l, r, s)) = e.limits {
            rl.set_loop_iteration_limit(l.min(100_000));
            rl.set_recursion_limit(r);
            rl.set_stack_size_limit(s);
        }
        ctx.set_runtime_limits(rl);
        host.hooks.deny_compile.set(e.deny_compile);
        host.hooks.buffer_cap.set(e.buffer_cap);
        let bytes: Vec<u8> = e.raw.clone().unwrap_or_else(|| e.src.clone().into_bytes());
        let mut reader_fired = [0u64; 4];
        let outcome: String = if e.mode == u32::MAX {
            // module evaluation: the entry source plus one dependency served by the loader
            loader.sources.borrow_mut().insert("dep".into(), "export let d = 1; export default function(){ return d; }".into());
            loader.plans.borrow_mut().insert("dep".into(), LoadPlan { latency: 2, fault: sc.loader_fault, fault_times: 0 });
            let src = format!("import dflt, {{d}} from 'dep';\n{}", String::from_utf8_lossy(&bytes));
            match boa_engine::Module::parse(Source::from_bytes(src.as_bytes()), None, ctx) {
                Err(err) => js::error_string(&err, ctx),
                Ok(m) => {
                    let p = m.load_link_evaluate(ctx);
                    let j = ctx.run_jobs();
                    let st = match p.state() {
                        boa_engine::builtins::promise::PromiseState::Pending => "pending".to_string(),
                        boa_engine::builtins::promise::PromiseState::Fulfilled(_) => "ok:module".to_string(),
                        boa_engine::builtins::promise::PromiseState::Rejected(v) => format!("throw:{}", js::show(&v, ctx)),
                    };
                    match j {
                        Ok(()) => st,
                        Err(err) => format!("{st} / jobs:{}", js::error_string(&err, ctx)),
                    }
                }
            }
        } else {
            let r = match (&e.reader, e.mode) {
                _ if e.utf16.is_some() => {
                    rep.fault("input.utf16_source", 1);
                    ctx.eval(Source::from_utf16(e.utf16.as_deref().unwrap_or(&[])))
                }
                (Some(plan), _) => {
                    let mut fr = FaultyReader { data: bytes.clone(), pos: 0, calls: 0, plan: plan.clone(), fired: [0; 4] };
                    let r = ctx.eval(Source::from_reader(&mut fr, None));
                    reader_fired = fr.fired;
                    r
                }
                (None, 0) => ctx.eval(Source::from_bytes(bytes.as_slice())),
                (None, b) => match std::str::from_utf8(&bytes) {
                    Ok(s) => {
                        let at_yields = sc.gc_at_yields;
                        // (at most 2000 collections per entry: a runaway loop that allocates and yields
                        // every other instruction would otherwise cost heap x yields collector work)
                        let mut ycol = 0u32;
                        let (r, y) = js::eval_budgeted(ctx, s, b, 3_000_000, |n| {
                            if at_yields && n % 4 == 0 && ycol < 2000 {
                                boa_gc::verif::collect_now();
                                ycol += 1;
                            }
                        });
                        rep.fault("yield", y);
                        r
                    }
                    Err(_) => ctx.eval(Source::from_bytes(bytes.as_slice())),
                },
            };
            let c = js::completion(&r, ctx);
            match ctx.run_jobs() {
                Ok(()) => c,
                Err(err) => format!("{c} / jobs:{}", js::error_string(&err, ctx)),
            }
        };
        ctx.clear_kept_objects();
        host.trace.take();
        if exec.cap_tripped() {
            rep.probe("job_cap_reached", 1);
        }
        rep.fault("reader.short", reader_fired[0]);
        rep.fault("reader.eintr", reader_fired[1]);
        rep.fault("reader.error", reader_fired[2]);
        rep.fault("reader.torn_or_truncated", reader_fired[3]);
        rep.fault("hook.deny_compile", host.hooks.deny_compile_fired.replace(0));
        if outcome.contains("limit:") {
            rep.fault("limit", 1);
        }
        if outcome.contains("enginepanic:") {
            let msg = outcome.split("enginepanic:").nth(1).unwrap_or("").chars().take(80).collect::<String>();
            rep.violate(format!("engine-panic:{msg}"), format!("entry {i}: {outcome}; source: {:?}", e.src.chars().take(300).collect::<String>()));
        }
        let kind = outcome.split(':').next().unwrap_or("").to_string();
        rep.probe(&format!("outcome_{kind}"), 1);
        fp.add(&outcome);
        sfp.add(&kind);
        rep.steps += 1;
    }
    // the context must still work
    if let Some((ctx, host, _, _)) = cur.as_mut() {
        ctx.set_runtime_limits(RuntimeLimits::default());
        host.hooks.deny_compile.set(false);
        host.hooks.buffer_cap.set(0);
        let r = ctx.eval(Source::from_bytes("(function(){ var s=0; for (var i=1;i<=4;i++) s+=i; return s; })()"));
        let ok = matches!(&r, Ok(v) if v.as_number() == Some(10.0));
        if !ok {
            let c = js::completion(&r, ctx);
            rep.violate("context-unusable", format!("after the history the probe evaluation gave {c}"));
        }
    }
    drop(cur);
    rep.fault("gc.at_alloc", inst.fired.get());
    js::uninstall_gc();
    rep.fingerprint = fp.0;
    rep.sched_fp = sfp.0 ^ sc.gc_every.rotate_left(13);
    rep.nontrivial = rep.faults.values().sum::<u64>() > 0;
    rep.shape = format!("n{}r{}g{}", sc.entries.len(), u8::from(sc.reuse), sc.gc_every.min(99));
    rep
}

pub fn shrink(v: &Value) -> Vec<Value> {
    let sc: Scenario = serde_json::from_value(v.clone()).expect("scenario");
    let mut out = vec![];
    let n = sc.entries.len();
    for i in (0..n).rev() {
        if n > 1 {
            let mut s = sc.clone();
            s.entries.remove(i);
            out.push(s);
        }
    }
    if sc.gc_every != u64::MAX {
        let mut s = sc.clone();
        s.gc_every = u64::MAX;
        out.push(s);
    }
    for i in 0..n {
        let e = &sc.entries[i];
        if e.reader.is_some() && e.raw.is_none() {
            let mut s = sc.clone();
            s.entries[i].reader = None;
            out.push(s);
        }
        if e.limits.is_some() {
            let mut s = sc.clone();
            s.entries[i].limits = None;
            out.push(s);
        }
        if e.mode != 0 {
            let mut s = sc.clone();
            s.entries[i].mode = 0;
            out.push(s);
        }
        if e.deny_compile || e.buffer_cap != 0 {
            let mut s = sc.clone();
            s.entries[i].deny_compile = false;
            s.entries[i].buffer_cap = 0;
            out.push(s);
        }
        if e.raw.is_none() {
            // token-level deletion
            let t = tokenize(&e.src);
            if t.len() > 1 && t.len() <= 400 {
                let step = (t.len() / 24).max(1);
                let mut a = 0;
                while a < t.len() {
                    let b = (a + step).min(t.len());
                    let mut tt = t.clone();
                    tt.drain(a..b);
                    let mut s = sc.clone();
                    s.entries[i].src = tt.concat();
                    out.push(s);
                    a = b;
                }
            } else if t.len() > 400 {
                for (a, b) in [(0, t.len() / 2), (t.len() / 2, t.len())] {
                    let mut tt = t.clone();
                    tt.drain(a..b);
                    let mut s = sc.clone();
                    s.entries[i].src = tt.concat();
                    out.push(s);
                }
            }
        }
    }
    out.into_iter().map(|s| serde_json::to_value(s).expect("ser")).collect()
}

pub const PROP: Prop = Prop {
    id: "C02",
    level: "exploration",
    runs_quick: 20_000,
    runs_thorough: 100_000,
    generate,
    execute,
    shrink,
    rule: "one run = a history of 1..6 (quick) / 1..30 (thorough) entries on a reused or fresh context; each entry = an input (kernel, harvested snippet, litmus or sabotage program, one of 49 hand-written syntax / boundary-argument corner snippets, or a token-level mutant of two of them: delete / duplicate / swap / splice / truncate / bracket nesting up to 64 / grammar spice, occasionally byte damage giving invalid UTF-8; 1 in 8 as UTF-16 code units with unpaired surrogates inserted, appended or left by a cut pair) fed through Source::from_bytes, Source::from_utf16 or the string argument of eval / Function, a faulty io::Read (1..64-byte reads, EINTR, hard error at byte k, EOF inside a sequence), budgeted evaluation or module evaluation through the simulated loader (latency, fetch / parse fault), under a seeded swarm of faults: limit triples with tiny values, collection at every k-th allocation (k=1 included) and at yields, refused string compilation, buffer cap; non-trivial = at least one fault fired; distinct = distinct (history length, reuse, schedule, sequence of outcome kinds). The byte-string axis of the property is sampled by a plain seeded generator without coverage guidance: the simulator contributes the fault and history axis, not a better input search.",
    real: &["lexer/parser/compiler/VM/builtins", "boa_gc", "SimpleJobExecutor", "module loading through the ModuleLoader seam"],
    stub: &["FaultyReader (io::Read)", "SimLoader", "SimHooks (deny compile, buffer cap)", "collection trigger decision (hook H1)"],
    assumptions: &[
        "a panic is caught by the worker (class = file + message head), an abort or SIGSEGV is seen by the orchestrator as the death of the worker inside the announced run",
        "a loop limit of at most 100000 is always set so that mutants cannot hang the worker",
    ],
    nondeterminism_is_violation: false,
    hang_is_violation: false,
};
