//! C07 — every host entry leaves the VM balanced and the context reusable.
//!
//! Scenario: a history of host entries on one context X with planned completion kinds
//! (normal / throw / limit fault at a swept cut point). After every entry the VM bookkeeping
//! (hook H2) must be what it was before. History oracle: twin context Y executes only the
//! entries that succeeded on X; every entry executed on both must give the same trace and
//! completion, and a probe suite under a small stack-size limit must agree afterwards.

use crate::harness::{Prop, RunReport, Tier};
use crate::js::{self, Host};
use crate::rng::{Fp, Rng};
use boa_engine::{Context, JsValue, Source, js_string, vm::RuntimeLimits};
use serde::{Deserialize, Serialize};
use serde_json::Value;

#[derive(Serialize, Deserialize, Clone, Debug)]
pub enum Op {
    /// `Context::eval`, then `run_jobs`
    Eval { src: String },
    /// `Script::evaluate_async_with_budget` polled to completion, then `run_jobs`
    EvalBudget { src: String, budget: u32 },
    /// `JsObject::call` on a global function
    Call { func: String, args: Vec<i32> },
    /// `JsObject::construct` on a global function
    Construct { func: String, args: Vec<i32> },
    /// host calls `.next/.return/.throw` on a global generator object
    Gen { obj: String, method: String, arg: i32 },
    /// `Module::parse` + `load_link_evaluate` + `run_jobs` of a self-contained module
    Module { src: String },
    /// Only on the survivor context, only if the previous entry failed: the generator that was cut
    /// in the middle of `next()` must be finished (a further `next()` answers `{done:true}`), not
    /// stuck in the executing state.
    GenPostMortem { obj: String },
}

#[derive(Serialize, Deserialize, Clone, Debug)]
pub struct Entry {
    pub op: Op,
    /// (loop, recursion, stack) limits for this entry only
    pub limits: Option<(u64, usize, usize)>,
    /// "ok" | "err" | "any"
    pub expect: String,
    pub kind: String,
}

#[derive(Serialize, Deserialize, Clone, Debug)]
pub struct Scenario {
    pub entries: Vec<Entry>,
    pub probe_stack_limit: usize,
    pub probe_depths: u32,
}

const PRELUDE: &str = r#"
function bombLoop(n){ var s=0; for (var i=0;i<n;i++){ s+=i; } return s; }
function bombWhile(n){ var i=0; while(i<n){ i++; } return i; }
function bombRec(d){ if (d<=0) return 0; return 1+bombRec(d-1); }
function thrower(k){ if (k<=0) throw new RangeError('thrower'); return thrower(k-1)+1; }
function K(a){ if (a<0) throw new TypeError('K neg'); this.a=a; }
class Cls { constructor(a){ if (a<0) throw new Error('Cls neg'); this.a=a; } }
function* genf(n){ try { for (var i=0;i<n;i++) yield i; } finally { print('genf finally'); } }
function* genBomb(n){ yield 'a'; bombLoop(n); yield 'b'; }
function viaMap(n){ return [1,2,3].map(function(x){ return bombLoop(n)+x; }).length; }
function viaGetter(n){ return ({get p(){ return bombRec(n); }}).p; }
function viaProxy(n){ return new Proxy({}, {get(t,k){ return bombLoop(n); }}).zz; }
function viaSort(n){ return [3,1,2].sort(function(a,b){ bombLoop(n); return a-b; })[0]; }
function viaToString(n){ return '' + {toString(){ bombRec(n); return 'ts'; }}; }
function viaReviver(n){ return JSON.parse('[1,2]', function(k,v){ bombLoop(n); return v; }).length; }
function viaReflect(n){ return Reflect.construct(function(){ this.v=bombRec(n); }, []).v; }
function viaEval(n){ return eval('bombLoop('+n+')'); }
function viaFunction(n){ return new Function('n','return bombRec(n)')(n); }
function viaGen(n){ var s=0; for (var x of (function*(){ for(var i=0;i<n;i++){ yield i; } })()) s+=x; return s; }
function viaBind(n){ return bombRec.bind(null, n)(); }
function viaApply(n){ return bombLoop.apply(null, [n]); }
function viaSpecies(n){ class A extends Array { static get [Symbol.species](){ bombLoop(n); return Array; } } return new A(1,2,3).map(function(x){return x}).length; }
function viaIter(n){ var it={ [Symbol.iterator](){ var i=0; return { next(){ bombLoop(n); return {done: i++>=2, value:i}; }, return(){ print('iter return'); return {}; } }; } }; var s=0; for (var v of it) s+=v; return s; }
var R = function r(d){ return d<=0 ? 0 : 1 + r(d-1); };
function viaForeign(n){ return foreign.bomb(n); }
function viaForeignRec(n){ return foreign.rec(n); }
function viaForeignCallback(n){ return [1].map(function(){ return foreign.bomb(n); })[0]; }
"#;

const ROUTES: &[&str] = &[
    "bombLoop", "bombWhile", "bombRec", "viaMap", "viaGetter", "viaProxy", "viaSort", "viaToString", "viaReviver",
    "viaReflect", "viaEval", "viaFunction", "viaGen", "viaBind", "viaApply", "viaSpecies", "viaIter", "viaForeign", "viaForeignRec", "viaForeignCallback",
];

struct Gen<'a> {
    rng: &'a mut Rng,
    n: u32,
    globals: Vec<String>,
    lexicals: Vec<String>,
    gens: Vec<String>,
    /// names that a failed script declared lexically: they must not exist afterwards
    ghosts: Vec<String>,
}

impl Gen<'_> {
    fn fresh(&mut self, p: &str) -> String {
        self.n += 1;
        format!("{p}{}", self.n)
    }

    /// An entry designed to succeed; may have script-visible side effects.
    fn success(&mut self) -> Entry {
        let r = self.rng.below(if self.ghosts.is_empty() { 12 } else { 15 });
        let (src, kind): (String, &str) = match r {
            12 | 13 => {
                // a name that only a FAILED script declared is still undeclared
                let g = self.rng.pick(&self.ghosts).clone();
                (format!("print('ghost {g}', typeof {g}); try {{ {g}; print('resolved'); }} catch (e) {{ print(e.name); }}"), "ghost-probe")
            }
            14 => {
                // ... and can be declared by a later script
                let i = self.rng.idx(self.ghosts.len());
                let g = self.ghosts.remove(i);
                self.lexicals.push(g.clone());
                (format!("let {g} = {}; print('{g}', {g});", self.rng.below(100)), "ghost-declared-later")
            }
            0 => {
                let g = self.fresh("g");
                self.globals.push(g.clone());
                (format!("var {g} = {}; print('{g}', {g});", self.rng.below(100)), "def-var")
            }
            1 if !self.globals.is_empty() => {
                let g = self.rng.pick(&self.globals).clone();
                if g.starts_with('f') {
                    // a global function defined by an earlier successful entry still is what it was
                    (format!("print('{g}', typeof {g} === 'function' ? {g}(3) : typeof {g});"), "mut-var")
                } else {
                    (format!("{g} = ({g}|0) + {}; print('{g}', {g});", self.rng.below(9)), "mut-var")
                }
            }
            2 => {
                let l = self.fresh("lex");
                self.lexicals.push(l.clone());
                (format!("let {l} = {}; print('{l}', {l});", self.rng.below(100)), "def-let")
            }
            3 => {
                let f = self.fresh("f");
                self.globals.push(f.clone());
                (
                    format!(
                        "function {f}(a){{ var t=0; for (var i=0;i<a;i++){{ t+=i; }} return t+{}; }} print({f}({}));",
                        self.rng.below(10),
                        self.rng.below(20)
                    ),
                    "def-fn",
                )
            }
            4 => (
                format!(
                    "try {{ thrower({}); }} catch (e) {{ print('caught', e.name); }} finally {{ print('fin'); }}",
                    self.rng.below(6)
                ),
                "caught-throw",
            ),
            5 => (
                format!(
                    "Promise.resolve({}).then(function(v){{ print('job', v); return v+1; }}).then(function(v){{ print('job2', v); }}); print('sync');",
                    self.rng.below(50)
                ),
                "promise-chain",
            ),
            6 => (
                "Promise.reject(new Error('rej')).catch(function(e){ print('rejected', e.message); });".into(),
                "promise-catch",
            ),
            7 => {
                let it = self.fresh("it");
                self.gens.push(it.clone());
                (format!("var {it} = genf({}); print(typeof {it});", self.rng.range(1, 4)), "def-gen")
            }
            8 => (
                format!(
                    "(async function(){{ print('a1'); await null; print('a2'); try {{ await Promise.reject(new Error('x')); }} catch(e) {{ print('a3', e.message); }} return {}; }})().then(function(v){{ print('done', v); }});",
                    self.rng.below(9)
                ),
                "async-fn",
            ),
            9 => {
                let route = *self.rng.pick(ROUTES);
                (format!("print('{route}', {route}({}));", self.rng.range(0, 12)), "route-ok")
            }
            10 => (
                "var o = {a:1,b:[1,2,3]}; print(JSON.stringify(o), Object.keys(o).length, typeof Cls, new Cls(2).a, new K(3).a);".into(),
                "misc",
            ),
            _ => (
                format!(
                    "label: for (var i=0;i<3;i++){{ try {{ if (i=={}) continue label; print('i', i); }} finally {{ print('f', i); }} }}",
                    self.rng.below(3)
                ),
                "labelled-finally",
            ),
        };
        let op = if self.rng.chance(1, 4) {
            Op::EvalBudget { src, budget: *self.rng.pick(&[1u32, 2, 3, 5, 8, 13, 50, 256]) }
        } else {
            Op::Eval { src }
        };
        Entry { op, limits: None, expect: "ok".into(), kind: kind.into() }
    }

    /// An entry designed to fail without script-visible side effects besides its prints.
    fn failing(&mut self) -> Entry {
        let r = self.rng.below(21);
        let k = self.rng.range(0, 6);
        let budgeted = self.rng.chance(1, 5);
        let mk = |src: String, budgeted: bool, rng: &mut Rng| {
            if budgeted {
                Op::EvalBudget { src, budget: *rng.pick(&[1u32, 2, 3, 7, 64]) }
            } else {
                Op::Eval { src }
            }
        };
        let (op, kind): (Op, &str) = match r {
            0 => (mk("print('t0'); throw new Error('top');".into(), budgeted, self.rng), "throw-top"),
            1 => (mk(format!("print('t1'); thrower({k});"), budgeted, self.rng), "throw-nested"),
            2 => (
                mk(
                    format!("(function a(n){{ if(n==0) throw new TypeError('deep'); return a(n-1)+1; }})({k});"),
                    budgeted,
                    self.rng,
                ),
                "throw-nested-local",
            ),
            3 => (
                mk(
                    "(function(){ function* g(){ yield 1; throw new RangeError('g'); } for (const x of g()) print('y', x); })();".into(),
                    budgeted,
                    self.rng,
                ),
                "throw-through-generator",
            ),
            4 => (
                mk(
                    "[1,2,3].map(function(x){ if (x==2) throw new Error('cb'); return x; });".into(),
                    budgeted,
                    self.rng,
                ),
                "throw-native-callback",
            ),
            5 => (mk("({get p(){ throw 1; }}).p;".into(), budgeted, self.rng), "throw-getter"),
            6 => (
                mk("new Proxy({}, {get(){ throw new Error('trap'); }}).x;".into(), budgeted, self.rng),
                "throw-proxy",
            ),
            7 => (mk("eval('(function(){ throw 7; })()');".into(), budgeted, self.rng), "throw-eval"),
            8 => (mk("new Function('throw new Error(\"fn\")')();".into(), budgeted, self.rng), "throw-function"),
            9 => (
                mk("JSON.parse('[1]', function(k,v){ throw new Error('rev'); });".into(), budgeted, self.rng),
                "throw-reviver",
            ),
            10 if self.rng.chance(1, 2) => (mk("let x = ;".into(), false, self.rng), "syntax-error"),
            10 | 19 if !self.globals.is_empty() && self.rng.chance(2, 3) => {
                // a lexical declaration that collides with an existing global var / function: the script
                // is rejected by GlobalDeclarationInstantiation and the global keeps working
                let g = self.rng.pick(&self.globals).clone();
                let src = match self.rng.below(4) {
                    0 => format!("print('never'); let {g} = 1;"),
                    1 => format!("const {g} = 1; print('never');"),
                    2 => format!("class {g} {{}} print('never');"),
                    _ => format!("let other{g} = 2, {g} = 1;"),
                };
                if src.contains("other") {
                    // (once: a name that a later entry has declared for real is no ghost any more)
                    let n = format!("other{g}");
                    if !self.ghosts.contains(&n) && !self.lexicals.contains(&n) {
                        self.ghosts.push(n);
                    }
                }
                (mk(src, budgeted, self.rng), "gdi-lexical-collides-with-global")
            }
            10 | 19 if self.rng.chance(1, 3) => {
                // several top-level functions, one of which cannot be declared: nothing of the script
                // may be installed (all CanDeclareGlobalFunction checks precede every binding)
                let first = if !self.globals.is_empty() && self.rng.chance(1, 2) {
                    self.rng.pick(&self.globals).clone()
                } else {
                    let n = self.fresh("ghost");
                    self.ghosts.push(n.clone());
                    n
                };
                let bad = *self.rng.pick(&["NaN", "Infinity", "undefined"]);
                let src = match self.rng.below(3) {
                    0 => format!("function {first}(a){{ return 'replaced'; }} function {bad}(){{}}"),
                    1 => format!("print('never'); function {first}(){{ return 'replaced'; }} var alsoNew{first} = 1; function {bad}(){{}} function tail{first}(){{}}"),
                    _ => format!("(0,eval)(\"function {first}(){{ return 'replaced'; }} function {bad}(){{}}\");"),
                };
                (mk(src, budgeted, self.rng), "gdi-fails-with-functions")
            }
            10 | 19 => {
                // lexical declarations in a script whose instantiation fails for another reason
                let n = self.fresh("ghost");
                self.ghosts.push(n.clone());
                let src = match self.rng.below(5) {
                    0 => format!("let {n} = 1; function NaN(){{}}"),
                    1 => format!("const {n} = 1; let undefined = 2;"),
                    2 => format!("class {n} {{}} function Infinity(){{}} print('never');"),
                    3 => format!("let {n} = 1; const NaN = 2;"),
                    _ => format!("print('never'); let {n}; var undefined; function undefined(){{}}"),
                };
                (mk(src, budgeted, self.rng), "gdi-fails-with-lexicals")
            }
            11 if !self.lexicals.is_empty() => {
                let l = self.rng.pick(&self.lexicals).clone();
                (mk(format!("print('never'); var {l};"), budgeted, self.rng), "gdi-redeclaration")
            }
            12 if self.rng.chance(1, 2) => {
                // GlobalDeclarationInstantiation / EvalDeclarationInstantiation fail at run time
                // (after the frame exists): a restricted global cannot be redeclared
                let g = *self.rng.pick(&["NaN", "Infinity", "undefined"]);
                let src = match self.rng.below(5) {
                    0 => format!("function {g}(){{}}"),
                    1 => format!("print('never'); function {g}(){{ return 1; }} var ok = 1;"),
                    2 => format!("(0,eval)('function {g}(){{}}');"),
                    3 => format!("eval('function {g}(){{}}');"),
                    _ => format!("(function(){{ return (0,eval)('var q; function {g}(){{}}'); }})();"),
                };
                (mk(src, budgeted, self.rng), "declaration-instantiation-fails")
            }
            12 => (Op::Call { func: "thrower".into(), args: vec![k as i32] }, "call-throw"),
            13 => (Op::Call { func: "Cls".into(), args: vec![1] }, "call-class-without-new"),
            14 => (Op::Construct { func: "K".into(), args: vec![-1] }, "construct-throw"),
            15 => (Op::Construct { func: "Cls".into(), args: vec![-1] }, "construct-class-throw"),
            16 if self.rng.chance(1, 2) => (
                mk("Promise.resolve().then(foreign.thrower).catch(function(e){ print('foreign rejected', e.name); }); foreign.thrower();".into(), budgeted, self.rng),
                "throw-foreign-realm",
            ),
            16 => (Op::Call { func: "Math".into(), args: vec![] }, "call-non-callable"),
            17 => (
                mk(
                    "(async function(){ await null; })(); (function(){ try { thrower(2); } finally { print('fin-then-throw'); } })();".into(),
                    budgeted,
                    self.rng,
                ),
                "throw-after-finally",
            ),
            18 => (
                Op::Module { src: format!("print('m'); thrower({k}); export const z = 1;") },
                "module-throw",
            ),
            _ => (mk("undefinedFunctionName();".into(), budgeted, self.rng), "reference-error"),
        };
        Entry { op, limits: None, expect: "err".into(), kind: kind.into() }
    }

    /// A side-effect-free bomb reached through some route, run under limits chosen so that the
    /// cut lands at a swept point (may or may not cut: expect "any" near the boundary).
    fn limit_fault(&mut self) -> Entry {
        let route = *self.rng.pick(ROUTES);
        let n = self.rng.range(1, 40);
        let which = self.rng.below(3);
        let (limits, expect): ((u64, usize, usize), &str) = match which {
            0 => {
                // loop limit swept over every cut point of the bomb
                let l = self.rng.range(0, n + 2);
                ((l, 512, 10 * 1024), "any")
            }
            1 => {
                let r = self.rng.range(1, n + 4) as usize;
                ((u64::MAX, r, 10 * 1024), "any")
            }
            _ => {
                let s = self.rng.range(8, 30 + 12 * n) as usize;
                ((u64::MAX, 512, s), "any")
            }
        };
        let via = self.rng.below(6);
        let op = match via {
            // a function of the other realm is itself the reaction handler / thenable: the job runs in
            // that realm and the limit error comes out of run_jobs
            4 if self.rng.chance(1, 2) => Op::Eval {
                src: match self.rng.below(3) {
                    0 => format!("Promise.resolve({n}).then(foreign.bomb);"),
                    1 => format!("Promise.resolve(foreign.thenable({n})).then(function(v){{ print('thenable', v); }});"),
                    _ => format!("Promise.resolve({n}).then(foreign.rec);"),
                },
            },
            // the bomb runs inside a promise job / await continuation: the error comes out of run_jobs
            4 => Op::Eval { src: format!("Promise.resolve().then(function(){{ {route}({n}); }}).catch(function(){{ print('caught'); }});") },
            5 => Op::Eval {
                src: format!("(async function(){{ await null; try {{ {route}({n}); }} finally {{ print('finally-after-bomb'); }} }})();"),
            },
            0 => Op::Call { func: route.into(), args: vec![n as i32] },
            1 => Op::EvalBudget { src: format!("{route}({n});"), budget: *self.rng.pick(&[1u32, 3, 11, 256]) },
            2 => Op::Eval {
                src: format!(
                    "try {{ {route}({n}); }} catch (e) {{ print('caught', e); }} finally {{ print('finally-after-bomb'); }}"
                ),
            },
            _ => Op::Eval { src: format!("{route}({n});") },
        };
        Entry { op, limits: Some(limits), expect: expect.into(), kind: format!("limit-{which}-{route}") }
    }

    /// A feature kernel (function-scoped, no script-visible side effects besides prints) run under
    /// a seeded limit triple: the cut lands anywhere inside builtins that re-enter user code.
    fn kernel_under_limits(&mut self) -> Entry {
        let (k, names) = crate::kernels::compose(self.rng, "spd", 1);
        let src = k.concat();
        let name = names[0];
        // `weak-kept` publishes objects on globalThis: not side-effect free
        if name == "weak-kept" {
            return self.limit_fault();
        }
        let limits = match self.rng.below(4) {
            0 => (self.rng.range(0, 60), 512, 10 * 1024),
            1 => (u64::MAX, self.rng.range(1, 12) as usize, 10 * 1024),
            2 => (u64::MAX, 512, self.rng.range(8, 300) as usize),
            _ => (self.rng.range(0, 400), self.rng.range(2, 40) as usize, self.rng.range(30, 2000) as usize),
        };
        let op = if self.rng.chance(1, 3) {
            Op::EvalBudget { src, budget: *self.rng.pick(&[1u32, 3, 17, 256]) }
        } else {
            Op::Eval { src }
        };
        Entry { op, limits: Some(limits), expect: "any".into(), kind: format!("kernel-{name}") }
    }

    /// def / next / next-under-a-limit / post-mortem, as a unit
    fn gen_cut_unit(&mut self) -> Vec<Entry> {
        let it = self.fresh("itb");
        let n = self.rng.range(5, 40);
        let l = self.rng.range(0, n + 3);
        vec![
            Entry { op: Op::Eval { src: format!("var {it} = genBomb({n}); print(typeof {it});") }, limits: None, expect: "ok".into(), kind: "def-genbomb".into() },
            Entry { op: Op::Gen { obj: it.clone(), method: "next".into(), arg: 0 }, limits: None, expect: "ok".into(), kind: "gen-next".into() },
            Entry { op: Op::Gen { obj: it.clone(), method: "next".into(), arg: 0 }, limits: Some((l, 512, 10 * 1024)), expect: "any".into(), kind: "gen-next-under-limit".into() },
            Entry { op: Op::GenPostMortem { obj: it }, limits: None, expect: "any".into(), kind: "gen-post-mortem".into() },
        ]
    }

    fn gen_resume(&mut self) -> Option<Entry> {
        if self.gens.is_empty() {
            return None;
        }
        let obj = self.rng.pick(&self.gens).clone();
        let (method, expect) = match self.rng.below(4) {
            0 | 1 => ("next", "ok"),
            2 => ("return", "ok"),
            _ => ("throw", "any"),
        };
        // `throw` into a generator has effects (it finishes the generator) and returns Err: the twin
        // would skip it, so it is only used as the last thing done to that generator.
        if method == "throw" {
            self.gens.retain(|g| g != &obj);
        }
        Some(Entry {
            op: Op::Gen { obj, method: method.into(), arg: self.rng.below(5) as i32 },
            limits: None,
            expect: expect.into(),
            kind: format!("gen-{method}"),
        })
    }
}

pub fn generate(rng: &mut Rng, tier: Tier) -> Value {
    let max = match tier {
        Tier::Quick => 24,
        Tier::Thorough => 60,
    };
    let len = rng.range(3, max);
    let fail_bias = rng.range(1, 6);
    let mut g = Gen { rng, n: 0, globals: vec![], lexicals: vec![], gens: vec![], ghosts: vec![] };
    let mut entries = vec![];
    for _ in 0..len {
        if g.rng.chance(1, 15) {
            entries.extend(g.gen_cut_unit());
            continue;
        }
        let e = match g.rng.below(10) {
            x if x < fail_bias.min(7) => {
                match g.rng.below(5) {
                    0 | 1 => g.limit_fault(),
                    2 => g.kernel_under_limits(),
                    _ => g.failing(),
                }
            }
            7 | 8 => g.gen_resume().unwrap_or_else(|| g.success()),
            _ => g.success(),
        };
        entries.push(e);
    }
    let sc = Scenario {
        entries,
        probe_stack_limit: rng.range(60, 400) as usize,
        probe_depths: rng.range(8, 40) as u32,
    };
    serde_json::to_value(sc).expect("ser")
}

fn set_limits(ctx: &mut Context, l: Option<(u64, usize, usize)>) {
    let mut rl = RuntimeLimits::default();
    if let Some((lo, re, st)) = l {
        rl.set_loop_iteration_limit(lo);
        rl.set_recursion_limit(re);
        rl.set_stack_size_limit(st);
    }
    ctx.set_runtime_limits(rl);
}

/// Executes one entry; returns (completion string, per-host-call depth problems).
fn run_entry(ctx: &mut Context, host: &Host, e: &Entry, rep: &mut RunReport, check: bool, idx: usize) -> String {
    let before = boa_engine::verif::vm_depths(ctx);
    let realm_before = ctx.realm().clone();
    set_limits(ctx, e.limits);
    let mut problems: Vec<String> = vec![];
    let mut observe = |ctx: &mut Context, what: &str, after_jobs: bool| {
        // The kept-alive list (WeakRef targets) is not part of the balance the property speaks
        // of: a drain that ran no promise job does not clear it (executor behaviour).
        let mut now = boa_engine::verif::vm_depths(ctx);
        now.kept_alive = before.kept_alive;
        let _ = after_jobs;
        let b = before;
        if now != b {
            problems.push(format!("after {what}: {b:?} -> {now:?}"));
        }
        if ctx.stack_trace().count() != 0 {
            problems.push(format!("after {what}: stack_trace() not empty"));
        }
        if ctx.realm() != &realm_before {
            problems.push(format!("after {what}: current realm changed"));
        }
    };
    let jobs = |ctx: &mut Context, first: String, observe: &mut dyn FnMut(&mut Context, &str, bool)| -> String {
        let r = ctx.run_jobs();
        observe(ctx, "run_jobs", true);
        match r {
            Ok(()) => first,
            Err(err) => format!("{first} / jobs:{}", js::error_string(&err, ctx)),
        }
    };
    let comp = match &e.op {
        Op::Eval { src } => {
            let r = ctx.eval(Source::from_bytes(src.as_str()));
            let c = js::completion(&r, ctx);
            observe(ctx, "eval", false);
            jobs(ctx, c, &mut observe)
        }
        Op::EvalBudget { src, budget } => {
            let (r, yields) = js::eval_budgeted(ctx, src, *budget, 2_000_000, |_| {});
            rep.fault("yield", yields);
            let c = js::completion(&r, ctx);
            observe(ctx, "evaluate_async_with_budget", false);
            jobs(ctx, c, &mut observe)
        }
        Op::Call { func, args } | Op::Construct { func, args } => {
            let f = ctx.global_object().get(js_string!(func.as_str()), ctx);
            observe(ctx, "global get", false);
            match f.ok().and_then(|v| v.as_object().clone()) {
                None => "err:no-such-global".into(),
                Some(f) => {
                    let args: Vec<JsValue> = args.iter().map(|a| JsValue::from(*a)).collect();
                    let r = if matches!(e.op, Op::Call { .. }) {
                        f.call(&JsValue::undefined(), &args, ctx)
                    } else {
                        f.construct(&args, None, ctx).map(|o| {
                            o.get(js_string!("a"), ctx).unwrap_or_default()
                        })
                    };
                    let c = js::completion(&r, ctx);
                    observe(ctx, "call/construct", false);
                    jobs(ctx, c, &mut observe)
                }
            }
        }
        Op::Gen { obj, method, arg } => {
            let o = ctx.global_object().get(js_string!(obj.as_str()), ctx).ok().and_then(|v| v.as_object().clone());
            match o {
                None => "err:no-such-global".into(),
                Some(o) => {
                    let m = o.get(js_string!(method.as_str()), ctx).ok().and_then(|v| v.as_object().clone());
                    match m {
                        None => "err:no-method".into(),
                        Some(m) => {
                            let r = m.call(&JsValue::from(o.clone()), &[JsValue::from(*arg)], ctx);
                            let r = r.map(|v| {
                                let d = v.as_object().map(|o| {
                                    let done = o.get(js_string!("done"), ctx).unwrap_or_default();
                                    let val = o.get(js_string!("value"), ctx).unwrap_or_default();
                                    format!("{{done:{},value:{}}}", done.display(), val.display())
                                });
                                JsValue::from(js_string!(d.unwrap_or_default().as_str()))
                            });
                            let c = js::completion(&r, ctx);
                            observe(ctx, "generator resume", false);
                            jobs(ctx, c, &mut observe)
                        }
                    }
                }
            }
        }
        Op::GenPostMortem { .. } => "ok:skipped".into(),
        Op::Module { src } => {
            let m = boa_engine::Module::parse(Source::from_bytes(src.as_str()), None, ctx);
            observe(ctx, "Module::parse", false);
            match m {
                Err(err) => js::error_string(&err, ctx),
                Ok(m) => {
                    let p = m.load_link_evaluate(ctx);
                    observe(ctx, "load_link_evaluate", false);
                    let c = jobs(ctx, "module".into(), &mut observe);
                    let st = match p.state() {
                        boa_engine::builtins::promise::PromiseState::Pending => "pending".to_string(),
                        boa_engine::builtins::promise::PromiseState::Fulfilled(_) => "fulfilled".to_string(),
                        boa_engine::builtins::promise::PromiseState::Rejected(v) => {
                            format!("throw:{}", v.display())
                        }
                    };
                    if st == "fulfilled" { format!("ok:{c}") } else { format!("{st} / {c}") }
                }
            }
        }
    };
    set_limits(ctx, None);
    let _ = host;
    if check {
        for p in problems {
            let class = if p.contains("stack:") && !p.contains("frames") { "depth-leak" } else { "depth-leak" };
            rep.violate(class, format!("entry {idx} ({}): {p}", e.kind));
        }
    }
    comp
}

fn failed(comp: &str) -> bool {
    !comp.starts_with("ok:") || comp.contains(" / jobs:")
}

fn probe_suite(ctx: &mut Context, host: &Host, sc: &Scenario) -> Vec<String> {
    let mut out = vec![];
    host.trace.take();
    let r = ctx.eval(Source::from_bytes(
        "print(typeof bombLoop, bombLoop(5), thrower.length, typeof marker, typeof foreign, this === globalThis); try { thrower(2) } catch (e) { print(e.name, e instanceof RangeError) } print(R(3)); var probeVar = 1; print(typeof probeVar);",
    ));
    out.push(js::completion(&r, ctx));
    let mut rl = RuntimeLimits::default();
    rl.set_stack_size_limit(sc.probe_stack_limit);
    ctx.set_runtime_limits(rl);
    for d in 0..sc.probe_depths {
        let r = ctx.eval(Source::from_bytes(format!("R({d})").as_str()));
        out.push(format!("R({d})={}", js::completion(&r, ctx)));
    }
    ctx.set_runtime_limits(RuntimeLimits::default());
    let r = ctx.eval(Source::from_bytes("Promise.resolve(1).then(function(v){ print('probe-job', v); }); 1+1"));
    out.push(js::completion(&r, ctx));
    let r = ctx.run_jobs();
    out.push(format!("jobs={}", r.is_ok()));
    out.extend(host.trace.take());
    out.push(format!("{:?}", boa_engine::verif::vm_depths(ctx)));
    out
}

const FOREIGN: &str = r#"
var marker = 'other-realm';
({ bomb: function foreignBomb(n){ var s=0; for (var i=0;i<n;i++){ s+=i; } return s; },
   rec: function foreignRec(d){ return d<=0 ? 0 : 1+foreignRec(d-1); },
   thrower: function foreignThrower(){ throw new RangeError('foreign'); },
   thenable: function(n){ return { then: function(res){ var s=0; for (var i=0;i<n;i++){ s+=i; } res(s); } }; } })
"#;

/// A second realm in the same context whose functions are published on the main realm's global:
/// jobs and calls that run them switch realms and must switch back on every exit path.
fn install_foreign(ctx: &mut Context) {
    let main = ctx.realm().clone();
    let other = ctx.create_realm().expect("realm");
    let script = boa_engine::Script::parse(Source::from_bytes(FOREIGN), Some(other), ctx).expect("parse");
    let exports = script.evaluate(ctx).expect("foreign realm setup");
    let _ = main.register_property(js_string!("foreign"), exports, boa_engine::property::Attribute::all(), ctx);
}

/// Generated names (prefix + number) an entry mentions, in order of appearance.
fn generated_names(text: &str) -> Vec<String> {
    let mut out: Vec<String> = vec![];
    let b = text.as_bytes();
    let mut i = 0;
    while i < b.len() {
        if b[i].is_ascii_alphabetic() || b[i] == b'_' || b[i] == b'$' {
            let st = i;
            while i < b.len() && (b[i].is_ascii_alphanumeric() || b[i] == b'_' || b[i] == b'$') {
                i += 1;
            }
            let w = &text[st..i];
            let stem = w.trim_end_matches(|c: char| c.is_ascii_digit());
            if stem.len() < w.len() && ["g", "f", "lex", "it", "itb", "ghost", "otherg", "otherf"].contains(&stem) && !out.iter().any(|x| x == w) {
                out.push(w.to_string());
            }
        } else {
            i += 1;
        }
    }
    out
}

/// (names the entry needs to exist, names it defines when it completes normally). Histories are
/// generated with their definitions in place; the shrinker removes entries freely, and an entry
/// whose definitions were removed is skipped instead of failing for that trivial reason.
fn deps(e: &Entry) -> (Vec<String>, Vec<String>) {
    let text = match &e.op {
        Op::Eval { src } | Op::EvalBudget { src, .. } | Op::Module { src } => src.clone(),
        Op::Gen { obj, .. } | Op::GenPostMortem { obj } => obj.clone(),
        Op::Call { func, .. } | Op::Construct { func, .. } => func.clone(),
    };
    let names = generated_names(&text);
    match e.kind.as_str() {
        "def-var" | "def-let" | "def-fn" | "def-gen" | "def-genbomb" | "ghost-declared-later" => (vec![], names.into_iter().take(1).collect()),
        "mut-var" | "gdi-redeclaration" | "gdi-lexical-collides-with-global" | "gen-next" | "gen-next-under-limit" | "gen-post-mortem" | "gen-return" | "gen-throw" => {
            (names.into_iter().filter(|n| !n.starts_with("other") && !n.starts_with("ghost")).collect(), vec![])
        }
        _ if matches!(e.op, Op::Gen { .. } | Op::GenPostMortem { .. }) => (names, vec![]),
        _ => (vec![], vec![]),
    }
}

pub fn execute(v: &Value) -> RunReport {
    let sc: Scenario = serde_json::from_value(v.clone()).expect("scenario");
    let mut rep = RunReport::default();
    let mut fp = Fp::default();
    let mut sfp = Fp::default();
    // X: the full history
    let (mut x, hx) = js::new_default_context();
    install_foreign(&mut x);
    x.eval(Source::from_bytes(PRELUDE)).expect("prelude");
    let mut xlog: Vec<(String, Vec<String>)> = vec![];
    let mut defined: std::collections::BTreeSet<String> = std::collections::BTreeSet::new();
    for (i, e) in sc.entries.iter().enumerate() {
        let (needs, defines) = deps(e);
        if needs.iter().any(|n| !defined.contains(n)) {
            rep.probe("entry_skipped_definition_missing", 1);
            xlog.push(("skipped".into(), vec![]));
            continue;
        }
        if let Op::GenPostMortem { obj } = &e.op {
            let prev_failed = xlog.last().is_some_and(|(c, _)| failed(c));
            if prev_failed {
                let next = Entry { op: Op::Gen { obj: obj.clone(), method: "next".into(), arg: 0 }, limits: None, expect: "any".into(), kind: e.kind.clone() };
                let comp = run_entry(&mut x, &hx, &next, &mut rep, true, i);
                hx.trace.take();
                rep.probe("generator_post_mortem", 1);
                if !comp.contains("done:true") {
                    rep.violate("generator-stuck-after-failure", format!("entry {i}: a generator that was cut by a limit inside next() answers {comp} to the next next()"));
                }
            }
            // not part of the twin comparison: mark as failed so that the twin skips it
            xlog.push(("skipped".into(), vec![]));
            continue;
        }
        let comp = run_entry(&mut x, &hx, e, &mut rep, true, i);
        let tr = hx.trace.take();
        rep.steps += 1;
        fp.add(&comp);
        for t in &tr {
            fp.add(t);
        }
        if js::is_engine_panic(&comp) || comp.contains("enginepanic:") {
            rep.violate("engine-panic", format!("entry {i} ({}): {comp}", e.kind));
        }
        let f = failed(&comp);
        if f {
            if comp.contains("limit:") {
                let k = if comp.contains("limit:loop") { "limit.loop" } else if comp.contains("limit:recursion") { "limit.recursion" } else { "limit.stack" };
                rep.fault(k, 1);
            } else {
                rep.fault("entry.throw", 1);
            }
        }
        sfp.add(&format!("{}:{}", e.kind, u8::from(f)));
        match e.expect.as_str() {
            // the entry kind is part of the class: shrinking must keep the entry that misbehaves
            "ok" if f => rep.violate(format!("plan-mismatch:{}", e.kind), format!("entry {i} ({}) expected ok, got {comp}", e.kind)),
            "err" if !f => rep.violate(format!("plan-mismatch:{}", e.kind), format!("entry {i} ({}) expected failure, got {comp}", e.kind)),
            _ => {}
        }
        if !f {
            defined.extend(defines);
        }
        xlog.push((comp, tr));
    }
    let px = probe_suite(&mut x, &hx, &sc);
    // Y: only what succeeded on X
    let (mut y, hy) = js::new_default_context();
    install_foreign(&mut y);
    y.eval(Source::from_bytes(PRELUDE)).expect("prelude");
    for (i, e) in sc.entries.iter().enumerate() {
        if failed(&xlog[i].0) {
            continue;
        }
        let comp = run_entry(&mut y, &hy, e, &mut rep, false, i);
        let tr = hy.trace.take();
        if comp != xlog[i].0 || tr != xlog[i].1 {
            rep.violate(
                "twin-divergence",
                format!(
                    "entry {i} ({}): with failed entries before it: {} {:?}; without: {} {:?}",
                    e.kind, xlog[i].0, xlog[i].1, comp, tr
                ),
            );
        }
    }
    let py = probe_suite(&mut y, &hy, &sc);
    if px != py {
        let at = px.iter().zip(py.iter()).position(|(a, b)| a != b).unwrap_or(px.len().min(py.len()));
        rep.violate(
            "probe-divergence",
            format!("probe item {at}: survivor {:?} vs clean {:?}", px.get(at), py.get(at)),
        );
    }
    for p in &px {
        fp.add(p);
    }
    rep.execs = 2;
    rep.fingerprint = fp.0;
    rep.sched_fp = sfp.0;
    rep.nontrivial = rep.faults.values().sum::<u64>() > 0;
    rep.shape = format!("n{}", sc.entries.len());
    rep
}

pub fn shrink(v: &Value) -> Vec<Value> {
    let sc: Scenario = serde_json::from_value(v.clone()).expect("scenario");
    let mut out = vec![];
    let n = sc.entries.len();
    // drop halves, then single entries
    if n > 3 {
        for (a, b) in [(0, n / 2), (n / 2, n)] {
            let mut s = sc.clone();
            s.entries.drain(a..b);
            out.push(s);
        }
    }
    for i in 0..n {
        let mut s = sc.clone();
        s.entries.remove(i);
        out.push(s);
    }
    for i in 0..n {
        if let Op::EvalBudget { src, .. } = &sc.entries[i].op {
            let mut s = sc.clone();
            s.entries[i].op = Op::Eval { src: src.clone() };
            out.push(s);
        }
    }
    if sc.probe_depths > 4 {
        let mut s = sc.clone();
        s.probe_depths /= 2;
        out.push(s);
    }
    out.into_iter().map(|s| serde_json::to_value(s).expect("ser")).collect()
}

pub const PROP: Prop = Prop {
    id: "C07",
    level: "fault_enumeration",
    runs_quick: 20_000,
    runs_thorough: 600_000,
    generate,
    execute,
    shrink,
    rule: "one run = one seeded history of 3..24 (quick) / 3..60 (thorough) host entries (eval, budgeted eval, JsObject::call/construct, generator resume, module evaluate, each followed by run_jobs) with planned completion kinds (normal, 20 throw routes, limit faults whose (loop,recursion,stack) triple is swept over the cut points of a bomb reached through 17 re-entry routes, and 38 function-scoped feature kernels cut by a seeded limit triple anywhere inside builtins that re-enter user code), executed on a survivor context and on a twin that only runs the successful entries; non-trivial = at least one entry failed (throw or limit fault fired); distinct = distinct (history length, sequence of entry kinds and pass/fail outcomes) pairs",
    real: &["lexer/parser/compiler/VM/builtins", "SimpleJobExecutor", "boa_gc (shipped trigger)", "RuntimeLimits"],
    stub: &["SimClock", "SimHooks", "print/tick natives"],
    assumptions: &[
        "failing entries are generated without script-visible side effects other than prints, so 'a context that only ran the successful ones' is well defined",
        "hook H2 reads the VM bookkeeping without changing it",
    ],
    nondeterminism_is_violation: false,
    hang_is_violation: true,
};
