//! Orchestrator / worker / replay / shrink / evidence: shared by every property.
//!
//! `check`   : spawn worker processes over run-index chunks, aggregate reports, audit
//!             determinism on a sample, triage violations (known findings, confirm in a
//!             fresh process, shrink, write replay, verify replay), write evidence.
//! `worker`  : execute a contiguous range of run indices, one JSON line per run.
//! `exec`    : execute one scenario file, print its report.
//! `replay`  : execute a replay file; exit 1 + VIOLATION line iff the violation reproduces.

use crate::rng::{Rng, fnv};
use serde::{Deserialize, Serialize};
use serde_json::{Value, json};
use std::collections::{BTreeMap, BTreeSet};
use std::io::{BufRead, BufReader, Write};
use std::process::{Command, Stdio};
use std::sync::atomic::{AtomicBool, AtomicU64, Ordering};
use std::sync::{Arc, Mutex, mpsc};
use std::time::{Duration, Instant};

#[derive(Clone, Copy, Debug, PartialEq, Eq)]
pub enum Tier {
    Quick,
    Thorough,
}
impl Tier {
    pub fn parse(s: &str) -> Option<Tier> {
        match s {
            "quick" => Some(Tier::Quick),
            "thorough" => Some(Tier::Thorough),
            _ => None,
        }
    }
    pub fn name(self) -> &'static str {
        match self {
            Tier::Quick => "quick",
            Tier::Thorough => "thorough",
        }
    }
}

#[derive(Serialize, Deserialize, Clone, Debug, Default, PartialEq, Eq)]
pub struct Violation {
    pub class: String,
    pub detail: String,
}

#[derive(Serialize, Deserialize, Clone, Debug, Default)]
pub struct RunReport {
    pub violations: Vec<Violation>,
    pub faults: BTreeMap<String, u64>,
    pub probes: BTreeMap<String, u64>,
    /// Hash of the whole event log of the run (determinism audit).
    pub fingerprint: u64,
    /// Hash of the scheduler decisions and fired faults only.
    pub sched_fp: u64,
    /// Coarse shape of the scenario (kinds and sizes, not contents).
    pub shape: String,
    pub steps: u64,
    pub sim_ms: u64,
    /// At least one fault fired or one non-default scheduling decision changed the event order.
    pub nontrivial: bool,
    /// Engine executions (contexts / configurations) performed by the run.
    pub execs: u64,
    /// The run left thread-local engine / collector state unusable: the worker must exit.
    #[serde(default)]
    pub poisoned: bool,
    /// Wall-clock milliseconds spent executing the run (measured by the worker; informational,
    /// never part of a fingerprint).
    #[serde(default)]
    pub wall_ms: u64,
}
impl RunReport {
    pub fn violate(&mut self, class: impl Into<String>, detail: impl Into<String>) {
        self.violations.push(Violation { class: class.into(), detail: detail.into() });
    }
    pub fn fault(&mut self, kind: &str, n: u64) {
        if n > 0 {
            *self.faults.entry(kind.to_string()).or_insert(0) += n;
        }
    }
    pub fn probe(&mut self, id: &str, n: u64) {
        if n > 0 {
            *self.probes.entry(id.to_string()).or_insert(0) += n;
        }
    }
}

pub struct Prop {
    pub id: &'static str,
    pub level: &'static str,
    pub runs_quick: u64,
    pub runs_thorough: u64,
    pub generate: fn(&mut Rng, Tier) -> Value,
    pub execute: fn(&Value) -> RunReport,
    pub shrink: fn(&Value) -> Vec<Value>,
    pub rule: &'static str,
    pub real: &'static [&'static str],
    pub stub: &'static [&'static str],
    pub assumptions: &'static [&'static str],
    /// A fingerprint mismatch between two executions of the same run is the violation itself
    /// (C20) rather than a harness error.
    pub nondeterminism_is_violation: bool,
    /// `false` for a property that says nothing about termination (C02: a mutated program may loop
    /// for ever inside a native, e.g. spreading an iterator that is never done): a run killed by the
    /// watchdog is then counted (`run_killed_by_watchdog`) but not judged.
    pub hang_is_violation: bool,
}

// ---------------------------------------------------------------------------------------------
// panic capture

thread_local! {
    static LAST_PANIC: std::cell::RefCell<Option<String>> = const { std::cell::RefCell::new(None) };
}

pub fn install_panic_hook() {
    std::panic::set_hook(Box::new(|info| {
        let loc = info
            .location()
            .map(|l| {
                let f = l.file();
                // keep the path stable w.r.t. where the repo is checked out
                let f = f.rsplit_once("/core/").map_or(f, |(_, t)| t);
                format!("{}:{}", f, l.line())
            })
            .unwrap_or_default();
        let msg = if let Some(s) = info.payload().downcast_ref::<&str>() {
            (*s).to_string()
        } else if let Some(s) = info.payload().downcast_ref::<String>() {
            s.clone()
        } else {
            "<non-string panic payload>".to_string()
        };
        LAST_PANIC.with(|p| *p.borrow_mut() = Some(format!("{loc}|{msg}")));
    }));
}

/// Stable signature of a panic: file (without line) + head of the message with digits masked.
pub fn panic_class(raw: &str) -> String {
    let (loc, msg) = raw.split_once('|').unwrap_or(("", raw));
    let file = loc.rsplit_once(':').map_or(loc, |(f, _)| f);
    let mut head = String::new();
    for c in msg.chars().take(70) {
        // a run of digits is one '#': the same site with a longer number is the same class
        match c {
            '0'..='9' if head.ends_with('#') => {}
            '0'..='9' => head.push('#'),
            '\n' => head.push(' '),
            c => head.push(c),
        }
    }
    format!("panic@{file}:{head}")
}

pub fn take_last_panic() -> Option<String> {
    LAST_PANIC.with(|p| p.borrow_mut().take())
}

/// Runs `f`, converting a panic into a violation of class `panic@file:message head`.
pub fn guarded(f: impl FnOnce() -> RunReport) -> RunReport {
    match std::panic::catch_unwind(std::panic::AssertUnwindSafe(f)) {
        Ok(r) => r,
        Err(_) => {
            let raw = take_last_panic().unwrap_or_else(|| "?|unknown panic".into());
            let mut r = RunReport::default();
            r.violate(panic_class(&raw), raw);
            r
        }
    }
}

// ---------------------------------------------------------------------------------------------
// known findings

#[derive(Deserialize, Clone, Debug)]
pub struct KnownFinding {
    pub property: String,
    /// "open" entries suppress; "fixed" entries are documentation only.
    pub status: String,
    /// exact violation class
    #[serde(default)]
    pub class: String,
    /// optional: substring that must occur in the detail
    #[serde(default)]
    pub detail_contains: String,
    pub what: String,
}

fn verif_root() -> String {
    std::env::var("VERIF_ROOT").unwrap_or_else(|_| "/verif".into())
}

pub fn load_known(prop: &str) -> Vec<KnownFinding> {
    let path = format!("{}/known_findings.json", verif_root());
    let Ok(text) = std::fs::read_to_string(&path) else { return vec![] };
    let v: Value = serde_json::from_str(&text).unwrap_or_else(|e| harness_error(&format!("bad {path}: {e}")));
    let mut out = vec![];
    for e in v["findings"].as_array().cloned().unwrap_or_default() {
        let k: KnownFinding =
            serde_json::from_value(e).unwrap_or_else(|e| harness_error(&format!("bad entry in {path}: {e}")));
        if k.property == prop && k.status == "open" {
            out.push(k);
        }
    }
    out
}

fn known_match<'a>(known: &'a [KnownFinding], v: &Violation) -> Option<&'a KnownFinding> {
    known
        .iter()
        .find(|k| k.class == v.class && (k.detail_contains.is_empty() || v.detail.contains(&k.detail_contains)))
}

pub fn harness_error(msg: &str) -> ! {
    println!("HARNESS-ERROR: {msg}");
    std::process::exit(2);
}

// ---------------------------------------------------------------------------------------------
// worker side

fn scenario_for(prop: &Prop, tier: Tier, seed: u64, run: u64) -> Value {
    let mut rng = Rng::derive(seed, prop.id, run);
    (prop.generate)(&mut rng, tier)
}

/// Address-space cap for worker processes: a runaway scenario (for example a seeded change that
/// disables a limit) then dies quickly with an allocation failure - which the orchestrator reports
/// as the death of the worker inside the announced run - instead of exhausting the machine.
fn cap_address_space() {
    #[repr(C)]
    struct RLimit {
        cur: u64,
        max: u64,
    }
    unsafe extern "C" {
        fn setrlimit(resource: i32, rlim: *const RLimit) -> i32;
    }
    const RLIMIT_AS: i32 = 9;
    let gb: u64 = std::env::var("VERIF_WORKER_GB").ok().and_then(|s| s.parse().ok()).unwrap_or(6);
    let lim = RLimit { cur: gb << 30, max: gb << 30 };
    // SAFETY: plain libc call with a valid pointer to a properly laid out struct.
    let _ = unsafe { setrlimit(RLIMIT_AS, &lim) };
}

pub fn worker(prop: &Prop, tier: Tier, seed: u64, runs: impl Iterator<Item = u64>) {
    cap_address_space();
    let out = std::io::stdout();
    for run in runs {
        {
            let mut o = out.lock();
            let _ = writeln!(o, "B {run}");
            let _ = o.flush();
        }
        let sc = scenario_for(prop, tier, seed, run);
        let t0 = Instant::now();
        let mut rep = guarded(|| (prop.execute)(&sc));
        rep.wall_ms = t0.elapsed().as_millis() as u64;
        let mut v = serde_json::to_value(&rep).expect("report serializes");
        if !rep.violations.is_empty() {
            v["scenario"] = sc;
        }
        let mut o = out.lock();
        let _ = writeln!(o, "E {run} {v}");
        let _ = o.flush();
        drop(o);
        // a caught panic may have left thread-local engine / collector state inconsistent:
        // never run another scenario on this thread (the orchestrator starts a new worker
        // for the rest of the list)
        // ... and, more generally, after any violation: whatever went wrong may have left
        // thread-local state (heap contents, counters) that the next scenario would inherit
        if rep.poisoned || !rep.violations.is_empty() {
            // `_exit`: skip thread-local destructors (the collector would walk the leaked heap)
            unsafe extern "C" {
                fn _exit(code: i32) -> !;
            }
            // SAFETY: plain libc call, never returns.
            unsafe { _exit(0) }
        }
    }
}

pub fn exec_file(prop: &Prop, path: &str) {
    // same environment as a worker: a run that died of the address-space cap there dies here too
    cap_address_space();
    let text = std::fs::read_to_string(path).unwrap_or_else(|e| harness_error(&format!("read {path}: {e}")));
    let v: Value = serde_json::from_str(&text).unwrap_or_else(|e| harness_error(&format!("parse {path}: {e}")));
    let sc = if v.get("scenario").is_some() && v.get("property").is_some() { v["scenario"].clone() } else { v };
    let rep = guarded(|| (prop.execute)(&sc));
    println!("R {}", serde_json::to_string(&rep).expect("report serializes"));
}

// ---------------------------------------------------------------------------------------------
// orchestrator side

fn exe() -> std::path::PathBuf {
    std::env::current_exe().expect("current_exe")
}

/// Executes a scenario in a fresh process. A crash of that process is itself a violation.
fn exec_fresh(prop: &Prop, sc: &Value, scratch: &str) -> RunReport {
    std::fs::write(scratch, serde_json::to_string(sc).expect("ser")).expect("write scratch");
    let mut child = Command::new(exe())
        .args(["exec", prop.id, scratch])
        .stdout(Stdio::piped())
        .stderr(Stdio::null())
        .spawn()
        .expect("spawn exec");
    let stdout = child.stdout.take().expect("stdout");
    let (tx, rx) = mpsc::channel();
    std::thread::spawn(move || {
        let mut rep = None;
        let mut oom = false;
        for line in BufReader::new(stdout).lines().map_while(Result::ok) {
            if let Some(j) = line.strip_prefix("R ") {
                rep = serde_json::from_str::<RunReport>(j).ok();
            } else if line == "OOM" {
                oom = true;
            }
        }
        if rep.is_none() && oom {
            // the sandbox's address-space cap, not the engine: nothing to judge
            let mut r = RunReport::default();
            r.probe("worker_out_of_memory", 1);
            rep = Some(r);
        }
        let _ = tx.send(rep);
    });
    let limit = Duration::from_secs(hang_secs());
    let got = rx.recv_timeout(limit);
    match got {
        Ok(Some(rep)) => {
            let _ = child.wait();
            rep
        }
        Ok(None) => {
            let st = child.wait().ok();
            let mut r = RunReport::default();
            r.violate("abort", format!("process ended without a report: {st:?}"));
            r
        }
        Err(_) => {
            let _ = child.kill();
            let _ = child.wait();
            let mut r = RunReport::default();
            if prop.hang_is_violation {
                r.violate("hang", format!("no report within {}s", limit.as_secs()));
            } else {
                r.probe("run_killed_by_watchdog", 1);
            }
            r
        }
    }
}

fn hang_secs() -> u64 {
    std::env::var("VERIF_HANG_SECS").ok().and_then(|s| s.parse().ok()).unwrap_or(300)
}

struct Collected {
    reports: u64,
    faults: BTreeMap<String, u64>,
    probes: BTreeMap<String, u64>,
    distinct: BTreeSet<u64>,
    distinct_sched: BTreeSet<u64>,
    nontrivial_runs: u64,
    steps: u64,
    sim_ms: u64,
    execs: u64,
    fingerprints: BTreeMap<u64, u64>,
    violations: Vec<(u64, Violation, Option<Value>)>,
    slowest: Vec<(u64, u64, String)>,
}

enum Msg {
    Report(u64, Box<RunReport>, Option<Value>),
    Died(u64, String),
}

fn run_chunks(prop: &Prop, tier: Tier, seed: u64, lists: Vec<Vec<u64>>, jobs: usize) -> Collected {
    let lists = Arc::new(Mutex::new(lists.into_iter().rev().collect::<Vec<_>>()));
    let (tx, rx) = mpsc::channel::<Msg>();
    let progress: Arc<Vec<(AtomicU64, AtomicU64)>> =
        Arc::new((0..jobs).map(|_| (AtomicU64::new(0), AtomicU64::new(0))).collect());
    let start = Instant::now();
    let done = Arc::new(AtomicBool::new(false));
    // set by the collector loop once enough violations were seen: the verdict cannot change any
    // more and every violating run costs a worker restart
    let stop = Arc::new(AtomicBool::new(false));
    let mut handles = vec![];
    for w in 0..jobs {
        let lists = lists.clone();
        let tx = tx.clone();
        let progress = progress.clone();
        let stop = stop.clone();
        let id = prop.id.to_string();
        handles.push(std::thread::spawn(move || {
            loop {
                if stop.load(Ordering::SeqCst) {
                    break;
                }
                let Some(mut list) = lists.lock().expect("lock").pop() else { break };
                while !list.is_empty() {
                    let arg = list.iter().map(u64::to_string).collect::<Vec<_>>().join(",");
                    let mut child = Command::new(exe())
                        .args(["worker", &id, tier.name(), &seed.to_string(), &arg])
                        .stdout(Stdio::piped())
                        .stderr(Stdio::null())
                        .spawn()
                        .expect("spawn worker");
                    progress[w].0.store(u64::from(child.id()), Ordering::SeqCst);
                    progress[w].1.store(start.elapsed().as_millis() as u64, Ordering::SeqCst);
                    let stdout = child.stdout.take().expect("stdout");
                    let mut begun: Option<u64> = None;
                    let mut finished = 0usize;
                    let mut oom = false;
                    for line in BufReader::new(stdout).lines().map_while(Result::ok) {
                        progress[w].1.store(start.elapsed().as_millis() as u64, Ordering::SeqCst);
                        if line == "OOM" {
                            oom = true;
                        } else if let Some(r) = line.strip_prefix("B ") {
                            begun = r.trim().parse().ok();
                        } else if let Some(rest) = line.strip_prefix("E ") {
                            let (run, j) = rest.split_once(' ').unwrap_or((rest, "{}"));
                            let run: u64 = run.parse().unwrap_or(u64::MAX);
                            let mut v: Value = serde_json::from_str(j).unwrap_or(Value::Null);
                            let sc = v.as_object_mut().and_then(|o| o.remove("scenario"));
                            match serde_json::from_value::<RunReport>(v) {
                                Ok(rep) => {
                                    let _ = tx.send(Msg::Report(run, Box::new(rep), sc));
                                }
                                Err(e) => {
                                    let _ = tx.send(Msg::Died(run, format!("unparsable report: {e}")));
                                }
                            }
                            begun = None;
                            finished += 1;
                        }
                    }
                    progress[w].0.store(0, Ordering::SeqCst);
                    let status = child.wait().ok();
                    if let Some(run) = begun {
                        // died (or was killed by the watchdog) inside `run`
                        use std::os::unix::process::ExitStatusExt;
                        let sig = status.and_then(|s| s.signal());
                        let why = match sig {
                            _ if oom => "out-of-memory under the worker's address-space cap".to_string(),
                            Some(9) => "signal: 9 (killed by the per-run watchdog, or by the kernel)".to_string(),
                            Some(n) => format!("signal: {n}"),
                            None => format!("{status:?}"),
                        };
                        let _ = tx.send(Msg::Died(run, why));
                        finished += 1;
                    } else if finished < list.len() && !status.is_some_and(|s| s.success()) {
                        let _ = tx.send(Msg::Died(list[finished], format!("worker failed before run: {status:?}")));
                        finished += 1;
                    }
                    list.drain(..finished.min(list.len()));
                    if finished == 0 {
                        break;
                    }
                }
            }
        }));
    }
    drop(tx);
    // watchdog
    let wd = {
        let progress = progress.clone();
        let done = done.clone();
        std::thread::spawn(move || {
            let limit = hang_secs() * 1000;
            while !done.load(Ordering::SeqCst) {
                std::thread::sleep(Duration::from_millis(250));
                let now = start.elapsed().as_millis() as u64;
                for (pid, last) in progress.iter() {
                    let p = pid.load(Ordering::SeqCst);
                    if p != 0 && now.saturating_sub(last.load(Ordering::SeqCst)) > limit {
                        let _ = Command::new("kill").args(["-9", &p.to_string()]).status();
                        last.store(now, Ordering::SeqCst);
                    }
                }
            }
        })
    };
    let max_violations: usize =
        std::env::var("VERIF_MAX_VIOLATIONS").ok().and_then(|s| s.parse().ok()).unwrap_or(300);
    let known = load_known(prop.id);
    let mut unknown_seen = 0usize;
    let mut c = Collected {
        reports: 0,
        faults: BTreeMap::new(),
        probes: BTreeMap::new(),
        distinct: BTreeSet::new(),
        distinct_sched: BTreeSet::new(),
        nontrivial_runs: 0,
        steps: 0,
        sim_ms: 0,
        execs: 0,
        fingerprints: BTreeMap::new(),
        violations: vec![],
        slowest: vec![],
    };
    for msg in rx {
        match msg {
            Msg::Report(run, rep, sc) => {
                c.reports += 1;
                for (k, v) in &rep.faults {
                    *c.faults.entry(k.clone()).or_insert(0) += v;
                }
                for (k, v) in &rep.probes {
                    *c.probes.entry(k.clone()).or_insert(0) += v;
                }
                if rep.nontrivial {
                    c.nontrivial_runs += 1;
                    c.distinct.insert(fnv(rep.shape.as_bytes()) ^ rep.sched_fp.rotate_left(21));
                }
                c.distinct_sched.insert(rep.sched_fp);
                c.steps += rep.steps;
                c.sim_ms += rep.sim_ms;
                c.execs += rep.execs;
                c.fingerprints.insert(run, rep.fingerprint);
                if rep.wall_ms >= 200 {
                    c.slowest.push((rep.wall_ms, run, rep.shape.chars().take(100).collect()));
                    c.slowest.sort_by(|a, b| b.cmp(a));
                    c.slowest.truncate(5);
                }
                for v in rep.violations {
                    if known_match(&known, &v).is_none() {
                        unknown_seen += 1;
                    }
                    c.violations.push((run, v, sc.clone()));
                }
                if unknown_seen >= max_violations {
                    stop.store(true, Ordering::SeqCst);
                }
            }
            Msg::Died(_, why) if why.starts_with("out-of-memory") => {
                // an allocation failed under the cap this harness puts on its workers: the sandbox ran
                // out of memory; counted, not judged
                c.reports += 1;
                *c.probes.entry("worker_out_of_memory".into()).or_insert(0) += 1;
            }
            Msg::Died(_, why) if why.contains("signal: 9") && !prop.hang_is_violation => {
                c.reports += 1;
                *c.probes.entry("run_killed_by_watchdog".into()).or_insert(0) += 1;
            }
            Msg::Died(run, why) => {
                c.reports += 1;
                unknown_seen += 1;
                let class = if why.contains("signal: 9") { "hang" } else { "abort" };
                c.violations.push((run, Violation { class: class.into(), detail: why }, None));
            }
        }
    }
    for h in handles {
        let _ = h.join();
    }
    done.store(true, Ordering::SeqCst);
    let _ = wd.join();
    c
}

fn chunked(runs: u64, jobs: usize) -> Vec<Vec<u64>> {
    let chunk = (runs / (jobs as u64 * 12)).clamp(1, 4000);
    let mut out = vec![];
    let mut a = 0;
    while a < runs {
        let b = (a + chunk).min(runs);
        out.push((a..b).collect());
        a = b;
    }
    out
}

fn shrink(prop: &Prop, sc: Value, class: &str, scratch: &str, budget: Duration) -> (Value, u64) {
    let t0 = Instant::now();
    let mut cur = sc;
    let mut tried = 0u64;
    'outer: loop {
        let cands = (prop.shrink)(&cur);
        for c in cands {
            if t0.elapsed() > budget {
                break 'outer;
            }
            tried += 1;
            let rep = exec_fresh(prop, &c, scratch);
            if rep.violations.iter().any(|v| v.class == class) {
                cur = c;
                continue 'outer;
            }
        }
        break;
    }
    (cur, tried)
}

fn short(v: &Value, max: usize) -> Value {
    let s = v.to_string();
    if s.len() <= max {
        v.clone()
    } else {
        let mut cut = max;
        while !s.is_char_boundary(cut) {
            cut -= 1;
        }
        Value::String(format!("{}… ({} bytes)", &s[..cut], s.len()))
    }
}

pub fn check(prop: &Prop, tier: Tier) -> i32 {
    let t0 = Instant::now();
    let seed: u64 = std::env::var("VERIF_SEED").ok().and_then(|s| s.trim().parse().ok()).unwrap_or(20_260_922);
    let jobs: usize = std::env::var("VERIF_JOBS").ok().and_then(|s| s.parse().ok()).unwrap_or(8).max(1);
    let runs: u64 = std::env::var("VERIF_RUNS").ok().and_then(|s| s.parse().ok()).unwrap_or(match tier {
        Tier::Quick => prop.runs_quick,
        Tier::Thorough => prop.runs_thorough,
    });
    let root = verif_root();
    let _ = std::fs::create_dir_all(format!("{root}/evidence"));
    let _ = std::fs::create_dir_all(format!("{root}/replays"));
    let scratch_dir = format!("{root}/sim/target/scratch");
    let _ = std::fs::create_dir_all(&scratch_dir);
    let scratch = format!("{scratch_dir}/{}-{}.json", prop.id, std::process::id());
    println!("check {} tier={} seed={seed} runs={runs} jobs={jobs}", prop.id, tier.name());

    let mut c = run_chunks(prop, tier, seed, chunked(runs, jobs), jobs);

    // determinism audit: re-execute a sample in different processes, in reverse order,
    // i.e. after a different amount of prior work on the worker's thread.
    let sample_n = (runs / 50).clamp(8.min(runs), 400);
    let mut sample: Vec<u64> = (0..sample_n).map(|i| (i * runs) / sample_n).collect();
    sample.dedup();
    sample.reverse();
    let half = sample.len() / 2;
    let lists = vec![sample[..half].to_vec(), sample[half..].to_vec()];
    let audit = run_chunks(prop, tier, seed, lists, 2);
    let mut audit_mismatch = vec![];
    for (run, fp) in &audit.fingerprints {
        if let Some(fp0) = c.fingerprints.get(run) {
            if fp0 != fp {
                audit_mismatch.push(*run);
            }
        }
    }
    let explained_by_violation = !c.violations.is_empty() || !audit.violations.is_empty();
    if !audit_mismatch.is_empty() && !(explained_by_violation && !prop.nondeterminism_is_violation) {
        if prop.nondeterminism_is_violation {
            for run in &audit_mismatch {
                c.violations.push((
                    *run,
                    Violation {
                        class: "cross-process-divergence".into(),
                        detail: format!("run {run}: event log differs between two processes"),
                    },
                    None,
                ));
            }
        } else {
            harness_error(&format!(
                "nondeterminism: runs {audit_mismatch:?} gave different event logs when re-executed in another process"
            ));
        }
    }

    // triage
    let known = load_known(prop.id);
    let mut known_hits: BTreeMap<String, u64> = BTreeMap::new();
    let mut unknown: BTreeMap<String, (u64, Violation, Option<Value>)> = BTreeMap::new();
    let mut unknown_total = 0u64;
    for (run, v, sc) in &c.violations {
        if let Some(k) = known_match(&known, v) {
            *known_hits.entry(k.what.clone()).or_insert(0) += 1;
        } else {
            unknown_total += 1;
            unknown.entry(v.class.clone()).or_insert_with(|| (*run, v.clone(), sc.clone()));
        }
    }
    {
        let mut per_class: BTreeMap<String, u64> = BTreeMap::new();
        for (_, v, _) in &c.violations {
            if known_match(&known, v).is_none() {
                *per_class.entry(v.class.clone()).or_insert(0) += 1;
            }
        }
        for (k, n) in &per_class {
            println!("  violation class {k}: {n}");
        }
    }
    for (what, n) in &known_hits {
        println!("KNOWN-FINDING: property={} {what} [{n} occurrence(s) this run]", prop.id);
    }
    let mut violation_lines = vec![];
    let shrink_budget =
        Duration::from_secs(std::env::var("VERIF_SHRINK_SECS").ok().and_then(|s| s.parse().ok()).unwrap_or(40));
    for (class, (run, v, sc)) in unknown.iter().take(4) {
        let sc = sc.clone().unwrap_or_else(|| scenario_for(prop, tier, seed, *run));
        // 1. confirm in a fresh process
        let mut rep = exec_fresh(prop, &sc, &scratch);
        let mut reproduced = rep.violations.iter().any(|x| &x.class == class);
        if !reproduced && class != "cross-process-divergence" {
            // An engine whose behaviour depends on addresses or hash order fails only in some
            // processes: try a few more before giving up on a minimal replay.
            for _ in 0..6 {
                rep = exec_fresh(prop, &sc, &scratch);
                reproduced = rep.violations.iter().any(|x| &x.class == class);
                if reproduced {
                    break;
                }
            }
            if !reproduced {
                println!(
                    "  note: violation {class} of run {run} did not reproduce in 7 fresh processes: the outcome depends on something outside the scenario (addresses, hash order); the replay file holds the unshrunk scenario"
                );
            }
        }
        // 2. shrink
        let (min_sc, tried) = if reproduced {
            shrink(prop, sc, class, &scratch, shrink_budget)
        } else {
            (sc, 0)
        };
        // 3. write replay and verify it
        let rep2 = if reproduced { exec_fresh(prop, &min_sc, &scratch) } else { rep };
        let vio = rep2.violations.iter().find(|x| &x.class == class).cloned().unwrap_or_else(|| v.clone());
        let safe: String = class.chars().map(|c| if c.is_ascii_alphanumeric() { c } else { '_' }).take(40).collect();
        let path = format!("{root}/replays/{}-{seed}-{run}-{safe}.json", prop.id);
        let file = json!({
            "version": 1, "property": prop.id, "seed": seed, "run": run, "tier": tier.name(),
            "scenario": min_sc, "violation": {"class": vio.class, "detail": vio.detail},
            "shrink_candidates_tried": tried,
        });
        std::fs::write(&path, serde_json::to_string_pretty(&file).expect("ser")).expect("write replay");
        violation_lines.push(format!("VIOLATION property={} replay={path}", prop.id));
        println!("  class={class}\n  detail={}", vio.detail);
    }
    let _ = std::fs::remove_file(&scratch);

    // evidence
    let wall = t0.elapsed().as_secs_f64();
    let samples: Vec<Value> = (0..3.min(runs)).map(|r| short(&scenario_for(prop, tier, seed, r), 1500)).collect();
    let fault_total: u64 = c.faults.values().sum();
    let evidence = json!({
        "property_id": prop.id,
        "tier": tier.name(),
        "seed": seed,
        "level": prop.level,
        "coverage": {
            "evaluations": c.reports,
            "distinct_nontrivial": c.distinct.len(),
            "rule": prop.rule,
            "samples": samples,
            "engine_executions": c.execs,
            "nontrivial_runs": c.nontrivial_runs,
            "distinct_schedules": c.distinct_sched.len(),
            "sim_steps": c.steps,
            "sim_time_ms": c.sim_ms,
            "runs_per_hour": if wall > 0.0 { (c.reports as f64 / wall * 3600.0) as u64 } else { 0 },
            "faults_fired": c.faults,
            "faults_fired_total": fault_total,
            "probes": c.probes,
            "audit_reexecuted": audit.fingerprints.len(),
            "audit_mismatches": audit_mismatch.len(),
            "components": {"real": prop.real, "stub": prop.stub},
            "known_findings_hit": known_hits,
            "jobs": jobs,
            "slowest_runs_ms": c.slowest,
        },
        "assumptions": prop.assumptions,
        "wall_s": wall,
        "violations": unknown_total,
    });
    std::fs::write(
        format!("{root}/evidence/{}.json", prop.id),
        serde_json::to_string_pretty(&evidence).expect("ser"),
    )
    .expect("write evidence");
    if tier == Tier::Thorough {
        // the quick tier rewrites evidence/<id>.json on every change; keep the deep run's record too
        let _ = std::fs::create_dir_all(format!("{root}/evidence/thorough"));
        let _ = std::fs::write(
            format!("{root}/evidence/thorough/{}.json", prop.id),
            serde_json::to_string_pretty(&evidence).expect("ser"),
        );
    }
    println!(
        "done {} runs={} execs={} distinct_nontrivial={} faults={} violations={} known={} wall={:.1}s",
        prop.id,
        c.reports,
        c.execs,
        c.distinct.len(),
        fault_total,
        unknown_total,
        known_hits.values().sum::<u64>(),
        wall
    );
    if violation_lines.is_empty() {
        0
    } else {
        for l in violation_lines {
            println!("{l}");
        }
        1
    }
}

/// Determinism audit: every run executed twice, in different processes, different order and
/// different chunking; event-log fingerprints must agree.
pub fn audit(prop: &Prop, tier: Tier) -> i32 {
    let seed: u64 = std::env::var("VERIF_SEED").ok().and_then(|s| s.trim().parse().ok()).unwrap_or(20_260_922);
    let jobs: usize = std::env::var("VERIF_JOBS").ok().and_then(|s| s.parse().ok()).unwrap_or(8).max(1);
    let runs: u64 = std::env::var("VERIF_RUNS").ok().and_then(|s| s.parse().ok()).unwrap_or(600);
    let a = run_chunks(prop, tier, seed, chunked(runs, jobs), jobs);
    let mut rev: Vec<u64> = (0..runs).rev().collect();
    let mut lists = vec![];
    let per = (runs as usize / (jobs + 1)).max(1);
    while !rev.is_empty() {
        let n = per.min(rev.len());
        lists.push(rev.drain(..n).collect());
    }
    let b = run_chunks(prop, tier, seed, lists, jobs);
    let bad: Vec<u64> =
        a.fingerprints.iter().filter(|(r, fp)| b.fingerprints.get(r) != Some(fp)).map(|(r, _)| *r).collect();
    println!(
        "audit {} jobs={jobs} runs={runs}: {} re-executed, {} mismatching {:?}",
        prop.id,
        b.fingerprints.len(),
        bad.len(),
        &bad[..bad.len().min(10)]
    );
    if bad.is_empty() { 0 } else { 2 }
}

pub fn replay(prop: &Prop, path: &str) -> i32 {
    let text = std::fs::read_to_string(path).unwrap_or_else(|e| harness_error(&format!("read {path}: {e}")));
    let v: Value = serde_json::from_str(&text).unwrap_or_else(|e| harness_error(&format!("parse {path}: {e}")));
    let class = v["violation"]["class"].as_str().unwrap_or("").to_string();
    let root = verif_root();
    let scratch_dir = format!("{root}/sim/target/scratch");
    let _ = std::fs::create_dir_all(&scratch_dir);
    let scratch = format!("{scratch_dir}/replay-{}.json", std::process::id());
    let rep = exec_fresh(prop, &v["scenario"], &scratch);
    let _ = std::fs::remove_file(&scratch);
    for x in &rep.violations {
        println!("  class={} detail={}", x.class, x.detail);
    }
    if rep.violations.iter().any(|x| x.class == class || class.is_empty()) {
        println!("VIOLATION property={} replay={path}", prop.id);
        1
    } else {
        println!("replay of {path}: violation class {class:?} did not occur");
        0
    }
}
