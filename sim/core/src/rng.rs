//! Seeded PRNG: splitmix64 seeding + xoshiro256**. Everything random in the simulator
//! comes from one of these, derived from (VERIF_SEED, property tag, run index).

#[derive(Clone, Debug)]
pub struct Rng([u64; 4]);

pub fn splitmix(x: &mut u64) -> u64 {
    *x = x.wrapping_add(0x9E37_79B9_7F4A_7C15);
    let mut z = *x;
    z = (z ^ (z >> 30)).wrapping_mul(0xBF58_476D_1CE4_E5B9);
    z = (z ^ (z >> 27)).wrapping_mul(0x94D0_49BB_1331_11EB);
    z ^ (z >> 31)
}

pub fn fnv(s: &[u8]) -> u64 {
    let mut h = 0xcbf2_9ce4_8422_2325u64;
    for b in s {
        h ^= u64::from(*b);
        h = h.wrapping_mul(0x0100_0000_01b3);
    }
    h
}

impl Rng {
    pub fn new(seed: u64) -> Self {
        let mut s = seed;
        Self([splitmix(&mut s), splitmix(&mut s), splitmix(&mut s), splitmix(&mut s)])
    }
    pub fn derive(seed: u64, tag: &str, run: u64) -> Self {
        let mut s = seed ^ fnv(tag.as_bytes()).rotate_left(17);
        let a = splitmix(&mut s);
        let mut s2 = a ^ run.wrapping_mul(0xD6E8_FEB8_6659_FD93);
        Self::new(splitmix(&mut s2))
    }
    pub fn next_u64(&mut self) -> u64 {
        let s = &mut self.0;
        let r = s[1].wrapping_mul(5).rotate_left(7).wrapping_mul(9);
        let t = s[1] << 17;
        s[2] ^= s[0];
        s[3] ^= s[1];
        s[1] ^= s[2];
        s[0] ^= s[3];
        s[2] ^= t;
        s[3] = s[3].rotate_left(45);
        r
    }
    /// Uniform in 0..n (n > 0).
    pub fn below(&mut self, n: u64) -> u64 {
        debug_assert!(n > 0);
        self.next_u64() % n
    }
    pub fn idx(&mut self, n: usize) -> usize {
        self.below(n as u64) as usize
    }
    /// Uniform in lo..=hi.
    pub fn range(&mut self, lo: u64, hi: u64) -> u64 {
        lo + self.below(hi - lo + 1)
    }
    pub fn chance(&mut self, num: u64, den: u64) -> bool {
        self.below(den) < num
    }
    pub fn pick<'a, T>(&mut self, xs: &'a [T]) -> &'a T {
        &xs[self.idx(xs.len())]
    }
    pub fn fork(&mut self) -> Rng {
        Rng::new(self.next_u64())
    }
}

/// Order-sensitive 64-bit fingerprint accumulator (no randomness, no addresses).
#[derive(Clone, Copy, Debug)]
pub struct Fp(pub u64);
impl Default for Fp {
    fn default() -> Self {
        Fp(0x1234_5678_9abc_def1)
    }
}
impl Fp {
    pub fn add(&mut self, s: &str) {
        self.0 = (self.0.rotate_left(5) ^ fnv(s.as_bytes())).wrapping_mul(0x0100_0000_01b3);
    }
    pub fn add_u64(&mut self, v: u64) {
        self.0 = (self.0.rotate_left(5) ^ v).wrapping_mul(0x0100_0000_01b3);
    }
}
