//! Host-side stubs and monitors on the `JobExecutor` seam.
//!
//! * `Recording`: the real `SimpleJobExecutor` behind a logging shim (each promise job is re-boxed
//!   into one that logs a sequence number before calling the original).
//! * `SimExecutor`: a stub host executor: strict FIFO for promise jobs, but each `run_jobs` call
//!   drains a scripted number of jobs (batch boundaries) and pending async jobs are polled in a
//!   scripted order.

use boa_engine::{
    Context, JsResult,
    job::{Job, JobExecutor, NativeAsyncJob, PromiseJob, SimpleJobExecutor},
};
use std::cell::{Cell, RefCell};
use std::collections::VecDeque;
use std::future::Future;
use std::pin::Pin;
use std::rc::Rc;
use std::task::Poll;

#[derive(Clone, Debug, PartialEq, Eq)]
pub enum JobEv {
    Enqueue(u64),
    /// (id, number of frames on the execution-context stack when it started)
    Run(u64, usize),
}

/// Checks FIFO order, exactly-once and empty-stack on a job event log. `bailed` = the executor
/// reported an error (then enqueued-but-never-run jobs are allowed: the queue is cleared).
pub fn check_job_log(log: &[JobEv], bailed: bool) -> Vec<(String, String)> {
    let mut out = vec![];
    let mut enq: Vec<u64> = vec![];
    let mut run: Vec<u64> = vec![];
    for e in log {
        match e {
            JobEv::Enqueue(i) => enq.push(*i),
            JobEv::Run(i, depth) => {
                if *depth != 0 {
                    out.push(("job-on-nonempty-stack".to_string(), format!("job {i} started with {depth} frames on the stack")));
                }
                if run.contains(i) {
                    out.push(("job-ran-twice".to_string(), format!("job {i} ran twice")));
                }
                if !enq.contains(i) {
                    out.push(("job-ran-before-enqueue".to_string(), format!("job {i}")));
                }
                run.push(*i);
            }
        }
    }
    // FIFO: the run order is the enqueue order restricted to the jobs that ran
    let expected: Vec<u64> = enq.iter().copied().filter(|i| run.contains(i)).collect();
    if expected != run {
        let at = expected.iter().zip(run.iter()).position(|(a, b)| a != b).unwrap_or(0);
        out.push(("fifo-order".to_string(), format!("position {at}: enqueue order {:?} vs run order {:?}", expected.get(at), run.get(at))));
    }
    if !bailed && enq.len() != run.len() {
        let missing: Vec<&u64> = enq.iter().filter(|i| !run.contains(i)).take(5).collect();
        out.push(("job-lost".to_string(), format!("{} enqueued, {} ran; never ran: {missing:?}", enq.len(), run.len())));
    }
    out
}

fn wrap(job: PromiseJob, id: u64, log: Rc<RefCell<Vec<JobEv>>>, stop: Option<std::sync::Arc<portable_stop::Flag>>) -> PromiseJob {
    PromiseJob::new(move |ctx| {
        log.borrow_mut().push(JobEv::Run(id, ctx.stack_trace().count()));
        if let Some(s) = &stop {
            s.trip();
        }
        job.call(ctx)
    })
}

/// A cap on the number of promise jobs one drain may run: a program whose jobs keep enqueueing
/// jobs never lets `run_jobs` return (that is the executor's documented behaviour, not a defect),
/// so campaigns over arbitrary programs ask the real executor to stop through its own
/// cancellation token once the cap is reached.
pub mod portable_stop {
    use std::sync::atomic::{AtomicU64, Ordering};
    pub struct Flag {
        pub remaining: AtomicU64,
        pub token: std::sync::Arc<portable_atomic_shim::AtomicBoolAlias>,
        pub tripped: AtomicU64,
    }
    impl Flag {
        pub fn trip(&self) {
            let r = self.remaining.load(Ordering::Relaxed);
            if r == 0 {
                self.token.store(true, Ordering::Relaxed);
                self.tripped.fetch_add(1, Ordering::Relaxed);
            } else {
                self.remaining.store(r - 1, Ordering::Relaxed);
            }
        }
    }
    pub mod portable_atomic_shim {
        pub type AtomicBoolAlias = portable_atomic::AtomicBool;
    }
}

#[derive(Default)]
pub struct Recording {
    pub inner: Rc<SimpleJobExecutor>,
    pub log: Rc<RefCell<Vec<JobEv>>>,
    next: Cell<u64>,
    pub cap: RefCell<Option<std::sync::Arc<portable_stop::Flag>>>,
}

impl Recording {
    /// Allows at most `n` further promise jobs; afterwards the executor is asked to stop.
    pub fn set_job_cap(&self, n: u64) {
        let flag = portable_stop::Flag {
            remaining: std::sync::atomic::AtomicU64::new(n),
            token: self.inner.get_cancellation_token(),
            tripped: std::sync::atomic::AtomicU64::new(0),
        };
        *self.cap.borrow_mut() = Some(std::sync::Arc::new(flag));
    }
    pub fn cap_tripped(&self) -> bool {
        self.cap.borrow().as_ref().is_some_and(|f| f.tripped.load(std::sync::atomic::Ordering::Relaxed) > 0)
    }
}

impl JobExecutor for Recording {
    fn enqueue_job(self: Rc<Self>, job: Job, context: &mut Context) {
        let job = match job {
            Job::PromiseJob(p) => {
                let id = self.next.get();
                self.next.set(id + 1);
                self.log.borrow_mut().push(JobEv::Enqueue(id));
                Job::PromiseJob(wrap(p, id, self.log.clone(), self.cap.borrow().clone()))
            }
            other => other,
        };
        self.inner.clone().enqueue_job(job, context);
    }
    fn run_jobs(self: Rc<Self>, context: &mut Context) -> JsResult<()> {
        self.inner.clone().run_jobs(context)
    }
    async fn run_jobs_async(self: Rc<Self>, context: &RefCell<&mut Context>) -> JsResult<()> {
        self.inner.clone().run_jobs_async(context).await
    }
}

#[derive(Default)]
pub struct SimExecutor {
    promise_jobs: RefCell<VecDeque<(u64, PromiseJob)>>,
    async_jobs: RefCell<VecDeque<NativeAsyncJob>>,
    pub log: Rc<RefCell<Vec<JobEv>>>,
    next: Cell<u64>,
    /// promise jobs to run per `run_jobs` call; when exhausted: drain everything
    pub batches: RefCell<VecDeque<u32>>,
    /// which pending async job to poll next (index modulo the number pending); default 0
    pub poll_order: RefCell<VecDeque<u32>>,
    pub batch_splits: Cell<u64>,
    pub poll_reorders: Cell<u64>,
    pub polls: Cell<u64>,
    pub turns: Cell<u64>,
    /// called between executor turns (collector, clock)
    pub between: RefCell<Option<Box<dyn FnMut(u64)>>>,
}

impl SimExecutor {
    pub fn is_empty(&self) -> bool {
        self.promise_jobs.borrow().is_empty() && self.async_jobs.borrow().is_empty()
    }
}

impl JobExecutor for SimExecutor {
    fn enqueue_job(self: Rc<Self>, job: Job, _context: &mut Context) {
        match job {
            Job::PromiseJob(p) => {
                let id = self.next.get();
                self.next.set(id + 1);
                self.log.borrow_mut().push(JobEv::Enqueue(id));
                self.promise_jobs.borrow_mut().push_back((id, p));
            }
            Job::AsyncJob(a) => self.async_jobs.borrow_mut().push_back(a),
            // finalization-registry cleanup jobs are optional by specification; timers and generic
            // jobs are not used by the simulated programs
            _ => {}
        }
    }

    fn run_jobs(self: Rc<Self>, context: &mut Context) -> JsResult<()> {
        let mut budget: Option<u32> = self.batches.borrow_mut().pop_front();
        let cell = RefCell::new(context);
        let mut pending: Vec<Pin<Box<dyn Future<Output = JsResult<boa_engine::JsValue>> + '_>>> = vec![];
        loop {
            for job in std::mem::take(&mut *self.async_jobs.borrow_mut()) {
                pending.push(Box::pin(job.call(&cell)));
            }
            self.turns.set(self.turns.get() + 1);
            if let Some(f) = self.between.borrow_mut().as_mut() {
                f(self.turns.get());
            }
            // poll one pending async job, chosen by the decision vector
            if !pending.is_empty() {
                let d = self.poll_order.borrow_mut().pop_front().unwrap_or(0) as usize % pending.len();
                if d != 0 {
                    self.poll_reorders.set(self.poll_reorders.get() + 1);
                }
                self.polls.set(self.polls.get() + 1);
                if let Poll::Ready(r) = crate::js::poll_once(pending[d].as_mut()) {
                    drop(pending.remove(d));
                    if let Err(e) = r {
                        self.promise_jobs.borrow_mut().clear();
                        return Err(e);
                    }
                }
            }
            // promise jobs: strict FIFO, including the ones enqueued by the jobs themselves
            loop {
                if budget == Some(0) {
                    break;
                }
                let Some((id, job)) = self.promise_jobs.borrow_mut().pop_front() else { break };
                let depth = cell.borrow().stack_trace().count();
                self.log.borrow_mut().push(JobEv::Run(id, depth));
                if let Err(e) = job.call(&mut cell.borrow_mut()) {
                    self.promise_jobs.borrow_mut().clear();
                    return Err(e);
                }
                if let Some(b) = budget.as_mut() {
                    *b -= 1;
                }
            }
            cell.borrow_mut().clear_kept_objects();
            if pending.is_empty() && self.async_jobs.borrow().is_empty() {
                if budget == Some(0) && !self.promise_jobs.borrow().is_empty() {
                    // batch boundary: return to the host with jobs still queued
                    self.batch_splits.set(self.batch_splits.get() + 1);
                    return Ok(());
                }
                if self.promise_jobs.borrow().is_empty() {
                    return Ok(());
                }
            }
            if budget == Some(0) {
                // async work is pending: the host cannot return now, go on draining
                budget = None;
            }
            if self.turns.get() > 5_000_000 {
                return Err(boa_engine::JsNativeError::error().with_message("SIM: executor turn cap exceeded").into());
            }
        }
    }
}

// ---------------------------------------------------------------------------------------------
// module loader seam

use boa_engine::module::{Module, ModuleLoader, ModuleRequest, Referrer};
use std::collections::BTreeMap;

#[derive(Clone, Debug, PartialEq, Eq)]
pub enum LoaderEv {
    Call { referrer: String, specifier: String },
    Done { referrer: String, specifier: String, ok: bool },
}

#[derive(Clone, Debug, Default)]
pub struct LoadPlan {
    /// number of polls the request stays pending
    pub latency: u32,
    /// 0 none, 1 fetch error, 2 parse error (source is replaced by broken text)
    pub fault: u8,
    /// 0 = the fault is permanent; k = only the first k requests for this module fail
    pub fault_times: u32,
}

/// Stub of the host's module fetcher: seeded latency per request, injected fetch / parse
/// errors; it calls the real `Module::parse`. The same specifier always yields the same record.
#[derive(Default)]
pub struct SimLoader {
    pub sources: RefCell<BTreeMap<String, String>>,
    pub plans: RefCell<BTreeMap<String, LoadPlan>>,
    pub cache: RefCell<BTreeMap<String, Module>>,
    pub log: Rc<RefCell<Vec<LoaderEv>>>,
    pub delays_fired: Cell<u64>,
    pub fetch_errors: Cell<u64>,
    pub parse_errors: Cell<u64>,
    /// requests seen so far per specifier (transient faults count them)
    pub attempts: RefCell<BTreeMap<String, u32>>,
}

struct Latency(u32);
impl Future for Latency {
    type Output = ();
    fn poll(mut self: Pin<&mut Self>, cx: &mut std::task::Context<'_>) -> Poll<()> {
        if self.0 == 0 {
            Poll::Ready(())
        } else {
            self.0 -= 1;
            // the real executor parks between polls: ask to be polled again
            cx.waker().wake_by_ref();
            Poll::Pending
        }
    }
}

impl SimLoader {
    pub fn name_of(&self, m: &Module) -> String {
        self.cache.borrow().iter().find(|(_, v)| *v == m).map_or_else(|| "?".to_string(), |(k, _)| k.clone())
    }

    /// The fault planned for `specifier`, if it still applies to the current request.
    fn active_fault(&self, specifier: &str, ordinal: u32) -> u8 {
        let plans = self.plans.borrow();
        let Some(p) = plans.get(specifier) else { return 0 };
        if p.fault != 0 && (p.fault_times == 0 || ordinal <= p.fault_times) { p.fault } else { 0 }
    }

    /// Parses (once) and returns the record for `specifier`.
    pub fn get_or_parse(&self, specifier: &str, ctx: &mut Context) -> JsResult<Module> {
        self.get_or_parse_nth(specifier, 0, ctx)
    }

    /// `ordinal`: which request for this specifier this is (1-based; 0 = handed over by the host).
    fn get_or_parse_nth(&self, specifier: &str, ordinal: u32, ctx: &mut Context) -> JsResult<Module> {
        // the fault belongs to the request, whatever another request has cached meanwhile
        let fault = if ordinal == 0 { 0 } else { self.active_fault(specifier, ordinal) };
        if fault != 2 {
            if let Some(m) = self.cache.borrow().get(specifier) {
                return Ok(m.clone());
            }
        }
        let src = if fault == 2 {
            self.parse_errors.set(self.parse_errors.get() + 1);
            "export let v = ;".to_string()
        } else {
            self.sources.borrow().get(specifier).cloned().ok_or_else(|| {
                boa_engine::JsNativeError::typ().with_message(format!("SIM loader: no such module {specifier}"))
            })?
        };
        let m = Module::parse(
            boa_engine::Source::from_bytes(src.as_str()).with_path(std::path::Path::new(specifier)),
            None,
            ctx,
        )?;
        self.cache.borrow_mut().insert(specifier.to_string(), m.clone());
        Ok(m)
    }
}

impl ModuleLoader for SimLoader {
    async fn load_imported_module(
        self: Rc<Self>,
        referrer: Referrer,
        request: ModuleRequest,
        context: &RefCell<&mut Context>,
    ) -> JsResult<Module> {
        let spec = request.specifier().to_std_string_escaped();
        let referrer = match &referrer {
            Referrer::Module(m) => self.name_of(m),
            Referrer::Realm(_) => "<realm>".to_string(),
            Referrer::Script(_) => "<script>".to_string(),
        };
        self.log.borrow_mut().push(LoaderEv::Call { referrer: referrer.clone(), specifier: spec.clone() });
        let ordinal = {
            let mut a = self.attempts.borrow_mut();
            let n = a.entry(spec.clone()).or_insert(0);
            *n += 1;
            *n
        };
        let plan = self.plans.borrow().get(&spec).cloned().unwrap_or_default();
        if plan.latency > 0 {
            self.delays_fired.set(self.delays_fired.get() + 1);
            Latency(plan.latency).await;
        }
        let r = if self.active_fault(&spec, ordinal) == 1 {
            self.fetch_errors.set(self.fetch_errors.get() + 1);
            Err(boa_engine::JsNativeError::typ().with_message(format!("SIM fetch failed: {spec}")).into())
        } else {
            self.get_or_parse_nth(&spec, ordinal, &mut context.borrow_mut())
        };
        self.log.borrow_mut().push(LoaderEv::Done { referrer, specifier: spec, ok: r.is_ok() });
        r
    }
}
