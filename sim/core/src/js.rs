//! Host side of the engine seams, shared by the property modules:
//! trace sink and natives, simulated clock and host hooks, completion classification,
//! collection policies on hook H1, a budgeted-evaluation poller.

use boa_engine::{
    Context, JsError, JsNativeError, JsResult, JsString, JsValue, NativeFunction, Script, Source,
    context::{ContextBuilder, HostHooks, time::{Clock, JsInstant}},
    error::{EngineError, RuntimeLimitError},
    job::JobExecutor,
    js_string,
    module::ModuleLoader,
    realm::Realm,
};
use std::cell::{Cell, RefCell};
use std::future::Future;
use std::pin::Pin;
use std::rc::Rc;
use std::task::{Context as TaskCx, Poll, Waker};

/// The `print` trace of one context.
#[derive(Clone, Default)]
pub struct Trace(pub Rc<RefCell<Vec<String>>>);
impl Trace {
    pub fn push(&self, s: impl Into<String>) {
        self.0.borrow_mut().push(s.into());
    }
    pub fn take(&self) -> Vec<String> {
        std::mem::take(&mut *self.0.borrow_mut())
    }
    pub fn snapshot(&self) -> Vec<String> {
        self.0.borrow().clone()
    }
    pub fn len(&self) -> usize {
        self.0.borrow().len()
    }
}

/// Discrete simulated clock: only the simulator advances it.
#[derive(Default)]
pub struct SimClock {
    pub millis: Cell<u64>,
}
impl Clock for SimClock {
    fn now(&self) -> JsInstant {
        let m = self.millis.get();
        JsInstant::new(m / 1000, ((m % 1000) * 1_000_000) as u32)
    }
    fn system_time_millis(&self) -> i64 {
        // 2026-01-01T00:00:00Z + simulated millis
        1_767_225_600_000 + self.millis.get() as i64
    }
}

/// Host hooks with a fixed time zone and switchable faults.
#[derive(Default)]
pub struct SimHooks {
    /// When set, `eval`/`Function` string compilation is refused.
    pub deny_compile: Cell<bool>,
    pub deny_compile_fired: Cell<u64>,
    /// Maximum buffer size reported to the engine (0 = engine default).
    pub buffer_cap: Cell<u64>,
    pub clock: Rc<SimClock>,
}
impl HostHooks for SimHooks {
    fn ensure_can_compile_strings(
        &self,
        _realm: Realm,
        _parameters: &[JsString],
        _body: &JsString,
        _direct: bool,
        _context: &mut Context,
    ) -> JsResult<()> {
        if self.deny_compile.get() {
            self.deny_compile_fired.set(self.deny_compile_fired.get() + 1);
            return Err(JsNativeError::eval().with_message("compilation refused by host").into());
        }
        Ok(())
    }
    fn utc_now(&self) -> i64 {
        self.clock.system_time_millis()
    }
    fn local_timezone_offset_seconds(&self, _unix_time_seconds: i64) -> i32 {
        3600
    }
    fn max_buffer_size(&self, _context: &mut Context) -> u64 {
        match self.buffer_cap.get() {
            0 => 1_610_612_736,
            n => n,
        }
    }
}

/// Everything the simulator holds next to a context.
pub struct Host {
    pub trace: Trace,
    /// separate channel for observations that may legitimately depend on collector timing
    pub weak: Trace,
    pub ticks: Rc<Cell<u64>>,
    pub clock: Rc<SimClock>,
    pub hooks: Rc<SimHooks>,
}

pub const TICK_HARD_CAP: u64 = 200_000;

/// Builds a context on the simulator's seams. `executor`/`loader` = None keeps boa's defaults
/// (SimpleJobExecutor; the default loader is never exercised by the simulator).
pub fn new_context<E: JobExecutor + 'static, L: ModuleLoader + 'static>(
    executor: Option<Rc<E>>,
    loader: Option<Rc<L>>,
) -> (Context, Host) {
    let clock = Rc::new(SimClock::default());
    let hooks = Rc::new(SimHooks { clock: clock.clone(), ..SimHooks::default() });
    let mut b = ContextBuilder::new().clock(clock.clone()).host_hooks(hooks.clone());
    if let Some(e) = executor {
        b = b.job_executor(e);
    }
    if let Some(l) = loader {
        b = b.module_loader(l);
    }
    let mut ctx = b.build().expect("context builds");
    let host = Host { trace: Trace::default(), weak: Trace::default(), ticks: Rc::new(Cell::new(0)), clock, hooks };
    install_natives(&mut ctx, &host);
    (ctx, host)
}

pub fn new_default_context() -> (Context, Host) {
    new_context::<boa_engine::job::SimpleJobExecutor, boa_engine::module::IdleModuleLoader>(None, None)
}

pub fn install_natives(ctx: &mut Context, host: &Host) {
    let trace = host.trace.clone();
    // SAFETY: the closure captures only an Rc<RefCell<Vec<String>>>, nothing traceable.
    let print = unsafe {
        NativeFunction::from_closure(move |_this, args, ctx| {
            let mut parts = Vec::with_capacity(args.len());
            for a in args {
                parts.push(match a.to_string(ctx) {
                    Ok(s) => s.to_std_string_escaped(),
                    Err(e) => return Err(e),
                });
            }
            trace.push(parts.join(" "));
            Ok(JsValue::undefined())
        })
    };
    ctx.register_global_builtin_callable(js_string!("print"), 1, print).expect("print");
    let weak = host.weak.clone();
    // SAFETY: the closure captures only an Rc<RefCell<Vec<String>>>, nothing traceable.
    let weakobs = unsafe {
        NativeFunction::from_closure(move |_this, args, ctx| {
            let mut parts = Vec::with_capacity(args.len());
            for a in args {
                parts.push(a.to_string(ctx)?.to_std_string_escaped());
            }
            weak.push(parts.join(" "));
            Ok(JsValue::undefined())
        })
    };
    ctx.register_global_builtin_callable(js_string!("weakobs"), 2, weakobs).expect("weakobs");
    let ticks = host.ticks.clone();
    // SAFETY: captures only an Rc<Cell<u64>>.
    let tick = unsafe {
        NativeFunction::from_closure(move |_this, _args, _ctx| {
            let n = ticks.get() + 1;
            ticks.set(n);
            if n > TICK_HARD_CAP {
                // in-process watchdog: an engine-level error scripts cannot intercept
                return Err(JsError::from(EngineError::RuntimeLimit(RuntimeLimitError::LoopIteration)));
            }
            Ok(JsValue::from(n as f64))
        })
    };
    ctx.register_global_builtin_callable(js_string!("tick"), 0, tick).expect("tick");
}

/// Classification of how a host entry completed; compared between runs.
pub fn completion(res: &JsResult<JsValue>, ctx: &mut Context) -> String {
    match res {
        Ok(v) => format!("ok:{}", show(v, ctx)),
        Err(e) => error_string(e, ctx),
    }
}

pub fn error_string(e: &JsError, ctx: &mut Context) -> String {
    if let Some(en) = e.as_engine() {
        return match en {
            EngineError::RuntimeLimit(RuntimeLimitError::LoopIteration) => "limit:loop".into(),
            EngineError::RuntimeLimit(RuntimeLimitError::Recursion) => "limit:recursion".into(),
            EngineError::RuntimeLimit(RuntimeLimitError::StackSize) => "limit:stack".into(),
            EngineError::Panic(p) => format!("enginepanic:{}", p.message()),
            #[allow(unreachable_patterns)]
            _ => "engine:other".into(),
        };
    }
    if let Some(n) = e.as_native() {
        return format!("throw:{}: {}", native_kind(n), n.message());
    }
    if let Some(v) = e.as_opaque() {
        let v = v.clone();
        return format!("throw:{}", show(&v, ctx));
    }
    "throw:?".into()
}

fn native_kind(n: &JsNativeError) -> &'static str {
    use boa_engine::JsNativeErrorKind as K;
    match n.kind() {
        K::Aggregate(_) => "AggregateError",
        K::Error => "Error",
        K::Eval => "EvalError",
        K::Range => "RangeError",
        K::Reference => "ReferenceError",
        K::Syntax => "SyntaxError",
        K::Type => "TypeError",
        K::Uri => "URIError",
        _ => "NativeError",
    }
}

pub fn is_limit(s: &str) -> bool {
    s.starts_with("limit:")
}
pub fn is_engine_panic(s: &str) -> bool {
    s.starts_with("enginepanic:")
}

/// Side-effect-free rendering of a value: primitives by display, objects by kind only (no user
/// code runs, nothing address- or layout-dependent is printed).
pub fn show(v: &JsValue, _ctx: &mut Context) -> String {
    if let Some(o) = v.as_object() {
        return if o.is_callable() { "[function]".into() } else if o.is_array() { "[array]".into() } else { "[object]".into() };
    }
    v.display().to_string()
}

// ---------------------------------------------------------------------------------------------
// collection policies (hook H1)

#[derive(Clone, Debug, PartialEq, Eq)]
pub enum GcPolicy {
    /// shipped behaviour (byte threshold)
    Shipped,
    Never,
    /// collect at every allocation point whose index (since install) is a multiple of k
    EveryK(u64),
    /// collect at exactly these allocation point indices (since install), sorted
    Indices(Vec<u64>),
    /// collect at each allocation point with probability per_mille/1000, decided by a private
    /// generator seeded from the scenario (so the schedule is a pure function of the scenario)
    Bernoulli { seed: u64, per_mille: u32 },
}

/// Upper bound on collections injected by one installed schedule.
pub const MAX_INJECTED_COLLECTIONS: u64 = 10_000;

pub struct GcInstall {
    pub fired: Rc<Cell<u64>>,
    pub points: Rc<Cell<u64>>,
}

pub fn install_gc(policy: &GcPolicy) -> GcInstall {
    let fired = Rc::new(Cell::new(0u64));
    let points = Rc::new(Cell::new(0u64));
    let (f, p) = (fired.clone(), points.clone());
    match policy.clone() {
        GcPolicy::Shipped => boa_gc::verif::set_policy(None),
        GcPolicy::Never => boa_gc::verif::set_policy(Some(Box::new(move |_| {
            p.set(p.get() + 1);
            false
        }))),
        GcPolicy::EveryK(k) => boa_gc::verif::set_policy(Some(Box::new(move |_| {
            let i = p.get();
            p.set(i + 1);
            // bounded cost: a runaway program under "collect at every allocation" is quadratic
            let hit = k > 0 && i % k == 0 && f.get() < MAX_INJECTED_COLLECTIONS;
            if hit {
                f.set(f.get() + 1);
            }
            hit
        }))),
        GcPolicy::Bernoulli { seed, per_mille } => {
            let mut rng = crate::rng::Rng::new(seed);
            boa_gc::verif::set_policy(Some(Box::new(move |_| {
                p.set(p.get() + 1);
                let hit = rng.below(1000) < u64::from(per_mille) && f.get() < MAX_INJECTED_COLLECTIONS;
                if hit {
                    f.set(f.get() + 1);
                }
                hit
            })));
        }
        GcPolicy::Indices(v) => {
            let mut pos = 0usize;
            boa_gc::verif::set_policy(Some(Box::new(move |_| {
                let i = p.get();
                p.set(i + 1);
                while pos < v.len() && v[pos] < i {
                    pos += 1;
                }
                let hit = pos < v.len() && v[pos] == i;
                if hit {
                    f.set(f.get() + 1);
                }
                hit
            })));
        }
    }
    GcInstall { fired, points }
}

pub fn uninstall_gc() {
    boa_gc::verif::set_policy(None);
}

// ---------------------------------------------------------------------------------------------
// polling futures by hand: the simulator is the poller

/// Polls `fut` once with a no-op waker.
pub fn poll_once<F: Future + ?Sized>(fut: Pin<&mut F>) -> Poll<F::Output> {
    let waker = Waker::noop();
    let mut cx = TaskCx::from_waker(waker);
    fut.poll(&mut cx)
}

/// Evaluates `src` with `Script::evaluate_async_with_budget`, calling `between(yield_no)` after
/// each yield (the context is mutably borrowed by the pending future, so `between` acts on the
/// environment only: collector, clock). Returns (result, yields).
pub fn eval_budgeted(
    ctx: &mut Context,
    src: &str,
    budget: u32,
    max_polls: u64,
    mut between: impl FnMut(u64),
) -> (JsResult<JsValue>, u64) {
    let script = match Script::parse(Source::from_bytes(src), None, ctx) {
        Ok(s) => s,
        Err(e) => return (Err(e), 0),
    };
    let mut yields = 0u64;
    let res = {
        let mut fut = std::pin::pin!(script.evaluate_async_with_budget(ctx, budget));
        loop {
            match poll_once(fut.as_mut()) {
                Poll::Ready(r) => break r,
                Poll::Pending => {
                    yields += 1;
                    if yields > max_polls {
                        break Err(JsNativeError::error().with_message("SIM: poll cap exceeded").into());
                    }
                    between(yields);
                }
            }
        }
    };
    (res, yields)
}

pub fn eval_sync(ctx: &mut Context, src: &str) -> JsResult<JsValue> {
    ctx.eval(Source::from_bytes(src))
}
