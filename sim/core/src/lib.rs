//! Deterministic simulation with fault injection for boa (see /verif/DESIGN.md).
pub mod harness;
pub mod js;
pub mod kernels;
pub mod rng;
pub mod seams;
pub mod props {
    pub mod c02;
    pub mod c06;
    pub mod c07;
    pub mod c08;
    pub mod c09;
    pub mod c10;
    pub mod c16;
    pub mod c17;
    pub mod c20;
}

use harness::Prop;

pub fn props() -> Vec<&'static Prop> {
    vec![&props::c02::PROP, &props::c06::PROP, &props::c07::PROP, &props::c08::PROP, &props::c09::PROP, &props::c10::PROP, &props::c16::PROP, &props::c17::PROP, &props::c20::PROP]
}
