//! Kernel library: hand-written, parametrised, self-contained JavaScript snippets per feature
//! family. Their purpose is reach: every builtin's Trace impl, every frame kind, every re-entry
//! route. `$A`, `$B`, `$C` are replaced by small seeded integers. Every kernel is deterministic,
//! prints through `print`, and is wrapped in its own function scope by `compose`.

use crate::rng::Rng;

pub struct Kernel {
    pub name: &'static str,
    /// 's' sync, 'p' uses promises/async (needs run_jobs), 'w' weak observations (weakobs channel)
    pub kind: char,
    pub src: &'static str,
}

pub const KERNELS: &[Kernel] = &[
    Kernel { name: "closures", kind: 's', src: r#"
function mk(n){ var c=n; return { inc(){ return ++c; }, dec(){ return --c; }, get(){ return c; } }; }
var cs=[]; for (var i=0;i<$A+2;i++) cs.push(mk(i*$B));
var s=0; for (var j=0;j<cs.length;j++){ cs[j].inc(); cs[j].inc(); cs[j].dec(); s+=cs[j].get(); }
print('closures', s, cs.length);
"# },
    Kernel { name: "linked-list", kind: 's', src: r#"
var head=null; for (var i=0;i<$A*10+5;i++){ head={v:i, next:head, tag:'n'+i}; }
var n=0, sum=0; for (var p=head;p;p=p.next){ n++; sum+=p.v; }
var rev=null; while(head){ var t=head.next; head.next=rev; rev=head; head=t; }
print('list', n, sum, rev.v, rev.tag, rev.next ? rev.next.tag : '-');
"# },
    Kernel { name: "object-graph", kind: 's', src: r#"
var nodes=[]; for (var i=0;i<$A*4+6;i++) nodes.push({id:i, out:[], meta:{w:i%3, name:'x'+i}});
for (var i=0;i<nodes.length;i++){ nodes[i].out.push(nodes[(i*7+$B)%nodes.length]); nodes[i].out.push(nodes[(i*3+1)%nodes.length]); }
var seen=new Set(), st=[nodes[0]], order=[];
while(st.length){ var x=st.pop(); if(seen.has(x)) continue; seen.add(x); order.push(x.id); for (var k=x.out.length-1;k>=0;k--) st.push(x.out[k]); }
print('graph', order.length, order.slice(0,8).join(','), nodes[$B%nodes.length].meta.name);
"# },
    Kernel { name: "classes-private", kind: 's', src: r#"
class Base { #x; static count=0; constructor(x){ this.#x=x; Base.count++; } get x(){ return this.#x; } set x(v){ this.#x=v; } #secret(){ return this.#x*2; } reveal(){ return this.#secret(); } static make(n){ return new this(n); } toString(){ return 'Base('+this.#x+')'; } }
class Derived extends Base { #y=$B; constructor(x){ super(x+1); } get y(){ return this.#y; } reveal(){ return super.reveal()+this.#y; } static #hidden=7; static peek(){ return Derived.#hidden; } }
var os=[]; for (var i=0;i<$A+3;i++) os.push(i%2 ? new Derived(i) : Base.make(i));
print('classes', os.map(function(o){ return o.reveal(); }).join(','), Base.count, Derived.peek(), String(os[0]), os[1] instanceof Base, Object.getOwnPropertyNames(os[1]).length);
os[1].x=40; print('classes2', os[1].x, os[1].y, Base.prototype.hasOwnProperty('x'));
"# },
    Kernel { name: "generators", kind: 's', src: r#"
function* fib(){ var a=0,b=1; for(;;){ yield a; var t=a+b; a=b; b=t; } }
function* take(it,n){ var i=0; for (var v of it){ if (i++>=n) return 'done'; yield v; } }
function* both(){ var r = yield* take(fib(), $A+4); yield r; try { yield 'in-try'; } finally { yield 'cleanup'; } }
var out=[]; for (var v of both()) out.push(v);
var g=both(); g.next(); var r1=g.return(99); var g2=both(); g2.next(); var r2; try { g2.throw(new Error('boom')); } catch(e){ r2=e.message; }
print('generators', out.join(','), JSON.stringify(r1), r2);
"# },
    Kernel { name: "destructuring", kind: 's', src: r#"
function f({a, b:{c=$A, ...restb}={}, ...rest}, [x,,y=5,...zs]=[1,2,undefined,4,5], ...more){ return [a,c,JSON.stringify(restb),JSON.stringify(rest),x,y,zs.length,more.length].join('|'); }
print('destructuring', f({a:1,b:{d:2,e:3},q:9}), f({a:2,b:{c:0}},[7,8,9],1,2,3));
var [p,q]=[q,p]; var {length:len, 0:first}='hey'; print('destructuring2', p, q, len, first, [...'ab', ...[1,[2]]].length, Math.max(...[1,$B,3]));
"# },
    Kernel { name: "proxy-reflect", kind: 's', src: r#"
var log=[]; var target={a:1, b:$A};
var p=new Proxy(target,{ get(t,k,r){ log.push('get:'+String(k)); return Reflect.get(t,k,r); }, set(t,k,v,r){ log.push('set:'+String(k)); return Reflect.set(t,k,v,r); }, has(t,k){ log.push('has:'+String(k)); return k in t; }, deleteProperty(t,k){ log.push('del:'+String(k)); return delete t[k]; }, ownKeys(t){ log.push('keys'); return Reflect.ownKeys(t); }, getOwnPropertyDescriptor(t,k){ return Reflect.getOwnPropertyDescriptor(t,k); } });
p.c=p.a+p.b; 'a' in p; delete p.a; var ks=Object.keys(p); var s=JSON.stringify(p);
print('proxy', log.join(','), ks.join(','), s, Reflect.ownKeys(target).length, Reflect.apply(Math.max, null, [1,$B]), Reflect.construct(Date, [0]).getTime());
"# },
    Kernel { name: "collections", kind: 's', src: r#"
var m=new Map(), s=new Set(), keys=[];
for (var i=0;i<$A*3+4;i++){ var k={i:i}; keys.push(k); m.set(k,'v'+i); m.set('s'+i,i); s.add(i%5); s.add(k); }
m.delete(keys[1]); m.delete('s0'); s.delete(keys[2]);
var it=m.entries(), cnt=0; for (var e of it){ cnt++; if (cnt==2) m.set('late', 1); }
var wm=new WeakMap(), ws=new WeakSet(); for (var i=0;i<keys.length;i++){ wm.set(keys[i], {back:keys[i], n:i}); ws.add(keys[i]); }
print('collections', m.size, s.size, cnt, [...m.keys()].filter(function(k){ return typeof k=='string'; }).slice(0,4).join(','), wm.get(keys[0]).n, wm.has(keys[1]), ws.has(keys[2]), wm.get({})===undefined);
"# },
    Kernel { name: "typed-arrays", kind: 's', src: r#"
var buf=new ArrayBuffer(64), u8=new Uint8Array(buf), f64=new Float64Array(buf,8,4), dv=new DataView(buf);
for (var i=0;i<u8.length;i++) u8[i]=(i*37+$A)&255; f64[1]=Math.PI; dv.setInt16(2,-2,true); dv.setFloat32(40,1.5);
var i32=Int32Array.from([5,3,$B,1]).sort(); var sub=u8.subarray(4,12); var copy=u8.slice(0,8); copy.fill(9,2,4);
var big=new BigInt64Array(2); big[0]=-5n; big[1]=2n**40n;
print('typed', u8[3], dv.getInt16(2,true), f64[1].toFixed(3), dv.getFloat32(40), i32.join(','), sub.length, copy.join(','), big.join(','), new Uint8Array(buf.slice(60)).length, u8.indexOf(u8[10]));
"# },
    Kernel { name: "regexp", kind: 's', src: r#"
var re=/(?<y>\d{4})-(?<m>\d{2})-(?<d>\d{2})/g, text='on 2024-01-0$A and 1999-12-31, not 20-1-1';
var ms=[...text.matchAll(re)].map(function(m){ return m.groups.y+'/'+m.index; });
var r2=text.replace(re, function(all,y,m,d){ return d+'.'+m+'.'+y; }); var sp='a1b22c333'.split(/\d+/); var st=/b+/y; st.lastIndex=1;
print('regexp', ms.join(','), r2, sp.join('|'), st.test('abbb'), st.lastIndex, /\p{Lu}/u.test('É'), 'xAy'.search(/[A-Z]/), RegExp('a.c','s').test('a\nc'));
"# },
    Kernel { name: "symbols-templates", kind: 's', src: r#"
var sym=Symbol('desc$A'), reg=Symbol.for('shared'), o={[sym]:1, [Symbol.toPrimitive](h){ return h=='number'?42:'str'; }, [Symbol.toStringTag]:'Custom'};
function tag(s,...v){ return s.raw.join('|')+'#'+v.join(',')+'#'+(s===tag.last)+'#'+Object.isFrozen(s); }
function call(){ var r=tag`a${1}b\n${$B}c`; tag.last=undefined; return r; }
print('symbols', String(sym), sym.description, Symbol.keyFor(reg), +o, `${o}`, Object.prototype.toString.call(o), Object.getOwnPropertySymbols(o).length, call(), typeof Symbol.iterator);
"# },
    Kernel { name: "bound-arguments", kind: 's', src: r#"
function sloppy(a,b){ arguments[0]=10; b=20; return [a,arguments[1],arguments.length].join(','); }
function strict(a,b){ 'use strict'; arguments[0]=10; b=20; return [a,arguments[1],arguments.length].join(','); }
function who(){ return this && this.name; } var bound=who.bind({name:'bound$A'}); var bb=bound.bind({name:'other'});
function Ctor(x,y){ this.s=x+y; } var BC=Ctor.bind(null, 1);
print('bound', sloppy(1,2,3), strict(1,2,3), bound(), bb(), new BC($B).s, BC.name, bound.length, (function(){ return typeof arguments.callee; })());
"# },
    Kernel { name: "json", kind: 's', src: r#"
var v={a:[1,{b:null,c:[true,'x "']}], d:new Date(0), n:-0, u:undefined, f:function(){}, big:1e21, nested:{toJSON(){ return {via:'toJSON$A'}; }}};
var s=JSON.stringify(v), s2=JSON.stringify(v, function(k,val){ return typeof val=='number' ? val+1 : val; }, 1), s3=JSON.stringify(v, ['a','b','d']);
var back=JSON.parse(s, function(k,val){ return Array.isArray(val) ? val.length : val; });
var err; try { JSON.parse('{"a":1,}'); } catch(e){ err=e.name; } var cyc={}; cyc.self=cyc; var err2; try { JSON.stringify(cyc); } catch(e){ err2=e.name; }
print('json', s, s2.length, s3, JSON.stringify(back), err, err2, JSON.stringify('\ud800'), JSON.parse('[1e3,-0]')[0]);
"# },
    Kernel { name: "date-bigint", kind: 's', src: r#"
var d=new Date(2020, 1, 29, 12, $A), d2=new Date(Date.UTC(1999,11,31,23,59,59,999)+1);
var b=(2n**64n-1n)*BigInt($B+1), q=b/7n, r=b%7n;
print('date', d.getTime(), d.toISOString(), d2.toISOString(), d.getDay(), new Date('2021-03-04T05:06:07Z').getTime(), new Date(NaN).getTime(), typeof Date.now());
print('bigint', String(b), String(q), String(r), (-7n)/2n, BigInt.asUintN(8, 257n), BigInt.asIntN(8, 255n), 10n**20n > Number.MAX_SAFE_INTEGER, typeof (1n<<70n), 0x10n+0b11n);
"# },
    Kernel { name: "labelled-finally", kind: 's', src: r#"
var log=[];
function f(n){ outer: for (var i=0;i<3;i++){ inner: for (var j=0;j<3;j++){ try { if (j==1) continue outer; if (i==2) break outer; if (n&&i==1) return 'ret'+i; log.push(i+''+j); } finally { log.push('f'+i+j); if (n==2 && i==1) break inner; } } } return 'end'; }
function g(){ try { throw new Error('a'); } catch(e){ try { throw new Error(e.message+'b'); } finally { log.push('inner-finally'); } } finally { log.push('outer-finally'); } }
var r; try { g(); } catch(e){ r=e.message; }
print('labelled', f(0), f(1), f(2), log.join(','), r, (function(){ try { return 'try'; } finally { log.push('x'); } })(), (function(){ l: { break l; } return 'after'; })());
"# },
    Kernel { name: "eval-with-function", kind: 's', src: r#"
var x='outer$A'; function f(){ var x='local'; return [eval('x'), (0,eval)('typeof x'), new Function('return typeof x')()].join(','); }
var o={x:'with', y:$B}; function w(){ with(o){ var z=x+y; y=y+1; } return z+'/'+o.y; }
function h(){ eval('var dyn=5; function inner(){ return dyn*2; }'); return inner()+dyn; }
var F=new Function('a','b=2','...r','return a+b+r.length'); var err; try { eval('let q=1; let q=2;'); } catch(e){ err=e.name; }
print('eval', f(), w(), h(), F(1), F(1,1,1,1), err, eval('1;;;'), eval('var e1=3; e1'), typeof e1);
"# },
    Kernel { name: "strings", kind: 's', src: r#"
var s=''; for (var i=0;i<$A*20+30;i++) s+=String.fromCharCode(97+i%26); var parts=s.split('a'), sl=s.slice(5,25), sub=sl.substring(3,9);
var t='ß→𝒳é'.normalize('NFD'), pad='7'.padStart(5,'0')+'|'+'ab'.padEnd(6,'xy'), rep='na'.repeat(4), cmp='a'.localeCompare('b');
print('strings', s.length, parts.length, sl, sub, t.length, [...t].length, pad, rep, cmp, s.lastIndexOf('z'), 'AbC'.toLowerCase()+'x'.toUpperCase(), ' \t trim\n'.trim()+'|', 'a-b_c'.replace(/[-_]/g, function(m){ return m=='-'?'+':'*'; }), '𝒳'.codePointAt(0), s.at(-1), 'abc'.isWellFormed());
"# },
    Kernel { name: "arrays", kind: 's', src: r#"
var a=[]; for (var i=0;i<$A*5+12;i++) a.push((i*7919+$B)%101);
var sorted=a.slice().sort(function(x,y){ return x-y; }), st=a.map(function(v,i){ return {v:v%5,i:i}; }).sort(function(x,y){ return x.v-y.v; });
var stable=st.every(function(e,i){ return i==0 || st[i-1].v<e.v || st[i-1].i<e.i; });
var sp=a.slice(0,8); var removed=sp.splice(2,3,'x','y'); var holes=[1,,3]; holes.length=5; var fl=[1,[2,[3,[4]]]].flat(2);
print('arrays', sorted[0], sorted[sorted.length-1], stable, sp.join(','), removed.join(','), 1 in holes, holes.indexOf(undefined), holes.includes(undefined), fl.length, a.reduce(function(x,y){ return x+y; },0), a.findLast(function(v){ return v<10; }), [3,1,2].toSorted().join(''), Array.from({length:3},function(_,i){ return i*i; }).join(','), [1,2,3,4,5].copyWithin(0,3).join(''), a.lastIndexOf(a[3]));
"# },
    Kernel { name: "errors", kind: 's', src: r#"
class MyErr extends Error { constructor(m,o){ super(m,o); this.name='MyErr'; this.code=$A; } }
function thrower(k){ if (k==0) throw new MyErr('deep', {cause: new RangeError('root')}); return thrower(k-1); }
var e1; try { thrower(3); } catch(e){ e1=e; } var e2; try { null.x; } catch(e){ e2=e; } var e3; try { undefinedName; } catch(e){ e3=e; } var e4; try { new Array(-1); } catch(e){ e4=e; } var e5; try { (void 0)(); } catch(e){ e5=e; }
var agg=new AggregateError([e1,e2],'many');
print('errors', String(e1), e1.code, e1.cause.name, e1 instanceof Error, e2.name, e3.name+':'+e3.message, e4.name, e5.name, agg.errors.length, agg.message, Object.prototype.toString.call(e1), Error('x').message, typeof e1.stack);
"# },
    Kernel { name: "iterators", kind: 's', src: r#"
var closed=0; function range(n){ return { [Symbol.iterator](){ var i=0; return { next(){ return i<n ? {value:i++, done:false} : {value:undefined, done:true}; }, return(v){ closed++; return {value:v, done:true}; } }; } }; }
var s=0; for (var v of range(10)){ if (v==$A%7+2) break; s+=v; } var [a,b]=range(5); var sp=[...range(3)];
var ent=Object.entries({x:1,y:2}).map(function(e){ return e.join('='); }); var ai=[10,20,30][Symbol.iterator](); ai.next();
var m=new Map([[1,'a'],[2,'b']]); var mi=m[Symbol.iterator](); var first=mi.next().value;
var helpers=typeof Iterator=='function' && Iterator.prototype.map ? range(6)[Symbol.iterator] && Iterator.from(range(6)).filter(function(x){ return x%2; }).map(function(x){ return x*$B; }).take(2).toArray().join(',') : 'n/a';
print('iterators', s, closed, a, b, sp.join(''), ent.join('&'), [...ai].join(','), first.join(':'), helpers, Array.from(new Set([3,3,4]).values()).join(''));
"# },
    Kernel { name: "property-descriptors", kind: 's', src: r#"
var o={}; Object.defineProperty(o,'ro',{value:$A, enumerable:false}); Object.defineProperty(o,'acc',{get(){ return this._v|0; }, set(v){ this._v=v*2; }, enumerable:true, configurable:true});
o.ro=99; o.acc=21; var fr=Object.freeze({a:{b:1}}); fr.a.b=2; fr.z=1; var se=Object.seal({q:1}); delete se.q; se.q=5; se.n=1;
var proto={inherited:1}; var c=Object.create(proto,{own:{value:2,enumerable:true}}); var keys=[]; for (var k in c) keys.push(k);
var ordered={b:1, 2:1, a:1, 1:1, [Symbol('s')]:1, '-1':1, '01':1};
print('props', o.ro, o.acc, Object.keys(o).join(','), JSON.stringify(Object.getOwnPropertyDescriptor(o,'ro')), fr.a.b, Object.isFrozen(fr), se.q, 'n' in se, keys.join(','), Object.keys(ordered).join(','), Reflect.ownKeys(ordered).length, Object.getPrototypeOf(c)===proto, c.hasOwnProperty('inherited'), Object.entries(Object.getOwnPropertyDescriptors(c)).length);
"# },
    Kernel { name: "getters-super", kind: 's', src: r#"
var base={ greet(){ return 'base:'+this.n; }, get v(){ return 'bv'; } }; var obj={ __proto__:base, n:$A, greet(){ return 'obj>'+super.greet(); }, get v(){ return 'ov>'+super.v; } };
class A { static s(){ return 'As'; } m(){ return 'Am'; } } class B extends A { static s(){ return 'Bs>'+super.s(); } m(){ var f=()=>super.m(); return 'Bm>'+f(); } }
var o2=Object.setPrototypeOf({n:2}, obj);
print('super', obj.greet(), obj.v, B.s(), new B().m(), o2.greet(), Object.getPrototypeOf(B)===A, new.target===undefined, (function(){ return new.target; })()===undefined, new (function F(){ this.t=new.target===F; })().t);
"# },
    Kernel { name: "number-math", kind: 's', src: r#"
var xs=[0.1+0.2, 1/3, 1e21, 1e-7, -0, 123456789.125, 2**53, 5e-324, (25).toString(2), (255).toString(16), (0.5).toString(3), (1234.5678).toFixed(2), (0.000001234).toExponential(2), (123.456).toPrecision(4), parseInt('0x1f'), parseInt('12px', 10), parseFloat('3.14abc'), Number('  12  '), Number('1_0'), Math.round(-0.5), Math.round(2.5), Math.fround(5.5), Math.hypot(3,4), Math.clz32(1), Math.imul(0xffffffff, 5), Math.sign(-3), Math.trunc(-4.7), Math.cbrt(27), $A%3 ? 7%-3 : -7%3, 2**-1, NaN===NaN, Object.is(-0,0)];
print('numbers', xs.join(' '));
"# },
    Kernel { name: "promise-chain", kind: 'p', src: r#"
var log=[]; function L(x){ log.push(x); }
Promise.resolve(1).then(function(v){ L('a'+v); return v+1; }).then(function(v){ L('b'+v); throw new Error('e'+v); }).catch(function(e){ L('c'+e.message); return $A; }).finally(function(){ L('fin'); }).then(function(v){ L('d'+v); });
Promise.reject(new Error('r')).then(function(){ L('never'); }, function(e){ L('rej:'+e.message); });
new Promise(function(res){ L('exec'); res({then(r){ L('thenable'); r('tv'); }}); }).then(function(v){ L('t:'+v); });
Promise.all([1, Promise.resolve(2), new Promise(function(r){ r(3); })]).then(function(v){ L('all:'+v.join('')); });
Promise.race([new Promise(function(){}), Promise.resolve('fast')]).then(function(v){ L('race:'+v); });
Promise.allSettled([Promise.reject(1), 2]).then(function(v){ L('settled:'+v.map(function(x){ return x.status[0]; }).join('')); });
Promise.any([Promise.reject(1), Promise.resolve('any$B')]).then(function(v){ L(v); });
L('sync-end'); Promise.resolve().then(function(){ return Promise.resolve().then(function(){}); }).then(function(){}).then(function(){}).then(function(){}).then(function(){ print('promise-chain', log.join(',')); });
"# },
    Kernel { name: "async-functions", kind: 'p', src: r#"
var log=[]; function L(x){ log.push(x); } function delay(v){ return new Promise(function(r){ r(v); }); }
async function a(n){ L('a'+n+':start'); var x=await delay(n); L('a'+n+':'+x); try { await Promise.reject(new Error('bad'+n)); } catch(e){ L('a'+n+':caught:'+e.message); } finally { L('a'+n+':fin'); } return x*2; }
async function b(){ var rs=await Promise.all([a(1), a(2)]); L('b:'+rs.join(',')); for (var i=0;i<$A%3+1;i++){ await null; L('b:tick'+i); } return 'b-done'; }
async function thrower(){ await 0; throw new TypeError('async-throw'); }
b().then(function(v){ L(v); }); thrower().catch(function(e){ L('t:'+e.name); }); (async ()=>{ L('arrow:'+(await (async ()=> 'inner$B')())); })();
L('sync-end'); (async function(){ for (var i=0;i<14;i++) await null; print('async', log.join(',')); })();
"# },
    Kernel { name: "async-generators", kind: 'p', src: r#"
var log=[]; function L(x){ log.push(x); }
async function* ag(n){ try { for (var i=0;i<n;i++){ var got=yield i; if (got) L('got:'+got); await null; } return 'ag-ret'; } finally { L('ag-finally'); } }
async function* outer(){ var r=yield* ag(2); yield 'after:'+r; }
(async function(){ var it=ag(3); L(JSON.stringify(await it.next())); L(JSON.stringify(await it.next('x'))); L(JSON.stringify(await it.return('early'))); L(JSON.stringify(await it.next())); })();
(async function(){ var acc=[]; for await (var v of outer()) acc.push(v); L('for-await:'+acc.join('|')); })();
(async function(){ var acc=[]; for await (var v of [Promise.resolve('p$A'), 'q', (function*(){ yield 'g'; })()]) acc.push(typeof v=='object' ? 'obj' : v); L('mixed:'+acc.join('')); })();
var q=ag(1); q.next(); q.next(); q.next().then(function(r){ L('queued:'+r.done); });
(async function(){ for (var i=0;i<16;i++) await null; print('async-gen', log.join(',')); })();
"# },
    Kernel { name: "promise-subclass", kind: 'p', src: r#"
var log=[]; class P2 extends Promise { constructor(ex){ log.push('ctor'); super(ex); } static get [Symbol.species](){ return Promise; } then(a,b){ log.push('then'); return super.then(a,b); } }
var p=new P2(function(r){ r($A); }); var q=p.then(function(v){ return v+1; }); var z=P2.resolve(5);
q.then(function(v){ log.push('v'+v+':'+(q instanceof P2)+':'+(z instanceof P2)); });
var thenCalls=0; var tricky={ get then(){ thenCalls++; return function(res){ res('tricky'); }; } }; Promise.resolve(tricky).then(function(v){ log.push(v+thenCalls); });
Promise.resolve().then(function(){}).then(function(){}).then(function(){}).then(function(){ print('promise-subclass', log.join(',')); });
"# },
    Kernel { name: "weak-kept", kind: 's', src: r#"
var kept=[]; var wm=new WeakMap(), ws=new WeakSet(), refs=[];
for (var i=0;i<$A+3;i++){ var k={i:i}; kept.push(k); wm.set(k,{v:i*$B, k:k}); ws.add(k); refs.push(new WeakRef(k)); }
globalThis.__kept=(globalThis.__kept||[]).concat(kept);
print('weak-kept', refs.every(function(r,i){ return r.deref()===kept[i]; }), kept.map(function(k){ return wm.get(k).v; }).join(','), kept.every(function(k){ return ws.has(k); }), wm.get(kept[0]).k===kept[0]);
"# },
    Kernel { name: "weak-dropped", kind: 'w', src: r#"
var W=globalThis.__weak||(globalThis.__weak={frs:[], refs:[], kept:[], keptRefs:[]});
var fr=new FinalizationRegistry(function(held){ weakobs('finalized', held); }); W.frs.push(fr);
var kept={name:'kept'}; W.kept.push(kept); var token={};
(function(){ for (var i=0;i<$A+2;i++){ var o={i:i, pad:new Array(20).fill(i)}; fr.register(o,'dropped'+W.refs.length); W.refs.push(new WeakRef(o)); } var u={}; fr.register(u,'unregistered',token); fr.unregister(token); })();
(function(){ for (var i=0;i<3;i++){ fr.register({only:'fr'+i}, 'dropped-fr'+W.frs.length+'-'+i); } })(); var junk=[]; for (var j=0;j<40;j++) junk.push({j:j});
fr.register(kept,'kept'); W.keptRefs.push(new WeakRef(kept));
weakobs('alive-now', W.refs.filter(function(r){ return r.deref()!==undefined; }).length, W.refs.length); weakobs('kept-deref', W.keptRefs.every(function(r,i){ return r.deref()===W.kept[i]; }));
print('weak-dropped', W.refs.length);
"# },
    Kernel { name: "weak-throwing-cleanup", kind: 'x', src: r#"
var W=globalThis.__weak||(globalThis.__weak={frs:[], refs:[], kept:[], keptRefs:[]}); W.tfrs=W.tfrs||[];
var tfr=new FinalizationRegistry(function(held){ weakobs('finalized', held); if (/T/.test(held)) throw 'cleanup-throw:'+held; }); W.tfrs.push(tfr); W.frs.push(tfr);
(function(){ for (var i=0;i<$A%3+2;i++){ tfr.register({i:i, pad:new Array(10).fill(i)}, 'dropped-T'+W.tfrs.length+'-'+i); tfr.register({q:i}, 'dropped-q'+W.tfrs.length+'-'+i); } })();
print('weak-throwing-cleanup', W.tfrs.length);
"# },
    Kernel { name: "weak-observe", kind: 'o', src: r#"
if (globalThis.__weak && globalThis.__weak.tfrs) { globalThis.__weak.late=(globalThis.__weak.late||0)+1; globalThis.__weak.tfrs.forEach(function(fr, n){ (function(){ fr.register({late:1}, 'dropped-late'+globalThis.__weak.late+'-'+n); fr.register({late:2}, 'dropped-lateT'+globalThis.__weak.late+'-'+n); })(); }); }
var W=globalThis.__weak; if (W){ var first=W.refs.map(function(r){ return r.deref()!==undefined; }); var again=W.refs.map(function(r){ return r.deref()!==undefined; });
weakobs('alive-later', first.filter(Boolean).length, W.refs.length); weakobs('stable-within-job', first.join()==again.join()); weakobs('kept-deref', W.keptRefs.every(function(r,i){ return r.deref()===W.kept[i]; })); }
print('weak-observe', W ? W.refs.length : -1);
"# },
    Kernel { name: "mixed-allocation", kind: 's', src: r#"
function build(d){ if (d==0) return {leaf:true, s:'l'+d, a:[1,2,3], f:function(){ return d; }}; return {l:build(d-1), r:build(d-1), m:new Map([[d,{d:d}]]), s:new Set([d]), g:(function*(){ yield d; })(), re:/x/g, dt:new Date(d), ta:new Uint8Array(d), sym:Symbol('s'+d), b:BigInt(d)**20n, bound:build.bind(null,0), p:Promise.resolve(d), e:new Error('e'+d), args:(function(){ return arguments; })(d,d), px:new Proxy({}, {}), wr:new WeakRef({}), str:'x'.repeat(d)+d}; }
var t=build($A%3+2); function count(n){ return n.leaf ? 1 : 1+count(n.l)+count(n.r); }
print('mixed', count(t), t.l.m.get(t.l.m.keys().next().value).d, t.g.next().value, t.r.ta.length, String(t.b).length, t.bound().leaf, t.args.length, t.str, t.e.message, typeof t.sym.description);
"# },
    Kernel { name: "array-buffer-resize", kind: 's', src: r#"
var rab=new ArrayBuffer(8,{maxByteLength:32}); var lt=new Uint8Array(rab), fixed=new Uint8Array(rab,0,4), off=new Uint16Array(rab,4);
for (var i=0;i<8;i++) lt[i]=i+$A; rab.resize(16); var a=[lt.length, fixed.length, off.length]; rab.resize(2); var b=[lt.length, fixed.length, off.length]; var oob; try { fixed[0]; oob=fixed.byteLength; } catch(e){ oob=e.name; }
var t=rab.transfer ? rab.transfer(4) : null; var det=t ? [rab.detached, rab.byteLength, t.byteLength, lt.length] : ['n/a'];
var err; try { new Uint8Array(rab); } catch(e){ err=e.name; }
print('resize', a.join(','), b.join(','), oob, det.join(','), err, new DataView(new ArrayBuffer(4)).byteLength);
"# },
    Kernel { name: "getter-setter-chains", kind: 's', src: r#"
var calls=[]; function mk(d){ return d==0 ? {v:1} : { get child(){ calls.push('g'+d); return mk(d-1); }, set child(x){ calls.push('s'+d); } }; }
var o=mk(3); var v=o.child.child.child.v; o.child=1; var c={ valueOf(){ calls.push('vo'); return $A; }, toString(){ calls.push('ts'); return 'str'; } };
var r=[c+1, `${c}`, c*2, c>1, [c]+'', c==$A, String(c), Number(c), JSON.stringify({c:c})].join('|');
print('getter-chains', v, calls.join(','), r);
"# },
    Kernel { name: "sort-comparator-side-effects", kind: 's', src: r#"
var arr=[]; for (var i=0;i<$A*3+9;i++) arr.push({k:(i*31+$B)%7, id:i}); var ncmp=0; var garbage=[];
arr.sort(function(x,y){ ncmp++; garbage.push({x:x,y:y,junk:new Array(4)}); if (ncmp%5==0) garbage.length=0; return x.k-y.k; });
var ok=arr.every(function(e,i){ return i==0 || arr[i-1].k<e.k || (arr[i-1].k==e.k && arr[i-1].id<e.id); });
var objs=['b','a','c'].map(function(s){ return {toString(){ return s; }}; }).sort().join('');
print('sort', ok, arr.map(function(e){ return e.k; }).join(''), objs, [5,25,100,1].sort().join(','), [,3,undefined,1].sort().length);
"# },
    Kernel { name: "template-weak-cache", kind: 's', src: r#"
var cache=new WeakMap(), seen=new WeakSet(), created=0; function tag(strings, x){ var id=cache.get(strings); if (id===undefined){ id=++created; cache.set(strings,id); } return id+(seen.has(strings)?'s':'n')+(seen.add(strings), ''); }
function render(x){ return tag`hello ${x} world`; } function other(){ return tag`second ${1} site`; }
var ids=[]; for (var i=0;i<$A+3;i++){ ids.push(render(i)); var junk=[]; for (var j=0;j<25;j++) junk.push({j:j, s:'x'+j}); if (i==1) ids.push(other()); }
ids.push(other(), (function(){ return tag`hello ${0} world`; })());
print('template-cache', ids.join(','), created);
"# },
    Kernel { name: "d-key-order", kind: 'd', src: r#"
var o={}; var ks=['b','10','a','2','-1','1.5','01','z',String(2**32),'4294967294','x'+$A]; for (var i=0;i<ks.length;i++) o[ks[i]]=i; o[Symbol('s1')]=1; o[Symbol.for('reg')]=2; delete o.a; o.a='re'; o[5]=5;
var proto={p1:1, 3:'p3', b:'shadowed'}; var c=Object.create(proto); c.own1=1; c[7]=7; c.own2=2; var fi=[]; for (var k in c) fi.push(k);
var wide={}; for (var i=0;i<40+$B;i++) wide['k'+((i*7)%41)]=i; for (var i=0;i<10;i++) delete wide['k'+i*3]; wide.k3='again';
print('d-keys', Object.keys(o).join(','), Reflect.ownKeys(o).length, JSON.stringify(o), fi.join(','), Object.keys(wide).slice(0,12).join(','), Object.getOwnPropertySymbols(o).map(String).join('|'));
print('d-keys2', Object.keys('str').join(''), Object.keys([9,,8]).join(''), Object.keys((function(){ return arguments; })(1,2)).join(''), Object.keys(new Uint8Array(3)).join(''), Object.getOwnPropertyNames(function f(a,b){}).join(','), Object.getOwnPropertyNames(class K { static s(){} }).join(','));
"# },
    Kernel { name: "d-map-set-order", kind: 'd', src: r#"
var m=new Map(), s=new Set(), objs=[]; for (var i=0;i<20+$A;i++){ var k=i%3==0 ? {i:i} : (i%3==1 ? 'k'+i : i*1.5); objs.push(k); m.set(k,i); s.add(k); }
for (var i=0;i<objs.length;i+=4){ m.delete(objs[i]); s.delete(objs[i]); } for (var i=0;i<objs.length;i+=8){ m.set(objs[i],'back'+i); s.add(objs[i]); }
m.set(NaN,'nan'); m.set(-0,'zero'); m.set(0,'zero2'); s.add(NaN); s.add(NaN);
var wm=new WeakMap(); var hits=0; for (var i=0;i<objs.length;i++) if (typeof objs[i]=='object'){ wm.set(objs[i], i); } for (var i=0;i<objs.length;i++) if (typeof objs[i]=='object' && wm.get(objs[i])===i) hits++;
print('d-mapset', [...m.values()].join(','), [...s].map(function(x){ return typeof x=='object' ? 'o'+x.i : x; }).join(','), m.size, s.size, hits, Object.is([...m.keys()].filter(function(k){ return k===0; })[0], 0));
"# },
    Kernel { name: "d-sort", kind: 'd', src: r#"
var a=[]; for (var i=0;i<60+$A;i++) a.push({k:(i*17+$B)%5, i:i, s:'s'+((i*31)%13)});
var byK=a.slice().sort(function(x,y){ return x.k-y.k; }).map(function(e){ return e.i; }).join(',');
var byS=a.map(function(e){ return e.s; }).sort().join(',');
var weird=a.slice(0,20).sort(function(x,y){ return (x.i*7+y.i*3)%3-1; }).map(function(e){ return e.i; }).join(',');
var mixed=[10,9,1,'b','a',undefined,null,,{toString(){ return 'm'; }},-1,2n].sort().map(String).join(',');
var ta=new Float64Array([3,-0,0,NaN,-Infinity,1e-300]).sort().join(',');
print('d-sort', byK, byS, weird, mixed, ta, ['B','a','C'].sort(function(x,y){ return x.localeCompare(y); }).join(''));
"# },
    Kernel { name: "d-errors-strings", kind: 'd', src: r#"
var msgs=[]; function t(f){ try { f(); msgs.push('no-throw'); } catch(e){ msgs.push(e.name+': '+e.message); } }
t(function(){ null.x; }); t(function(){ undefined(); }); t(function(){ ({}).x.y; }); t(function(){ new (class { constructor(){ return 1; } })(); }); t(function(){ [].reduce(function(){}); }); t(function(){ new Array(-1); }); t(function(){ 'x'.repeat(-1); });
t(function(){ Symbol()+''; }); t(function(){ BigInt(1.5); }); t(function(){ 1n+1; }); t(function(){ JSON.parse('{'); }); t(function(){ new Proxy({}, null); }); t(function(){ Object.defineProperty(Object.freeze({}), 'a', {value:1}); }); t(function(){ x$A; }); t(function(){ let q=q; }); t(function(){ class A extends null { constructor(){ super(); } } new A(); }); t(function(){ decodeURIComponent('%'); }); t(function(){ (1).toFixed(200); });
function named(a, b=2, ...c){ /* body */ return a; } class K$B { #p=1; static s(){ return 1; } get g(){ return this.#p; } }
print('d-errors', msgs.join(' ; '));
print('d-fnstr', String(named), String(K$B).length, String(Math.max), String(function(){}), String(()=>1), String(async function*ag(){}), String(Symbol('d')), String([1,[2,[3]]]), String({}), String(new Date(0).getTime()), typeof new Error('s').stack);
"# },
    Kernel { name: "d-templates-identity", kind: 'd', src: r#"
function tag(s){ return s; } function site(){ return tag`a${1}b`; } var t1=site(), t2=site(), t3=tag`a${1}b`;
var syms=[Symbol(), Symbol('x'), Symbol.for('x'), Symbol.for('x'), Symbol.iterator]; var o={}; for (var i=0;i<syms.length;i++) o[syms[i]]=i;
var ids=new Map(); function id(x){ if (!ids.has(x)) ids.set(x, ids.size); return ids.get(x); }
var fns=[]; for (var i=0;i<3;i++) fns.push(function(){ return i; }); var objs=[{}, {}, [], [], function(){}, function(){}];
print('d-identity', t1===t2, t1===t3, Object.isFrozen(t1), t1.raw.length, syms.map(id).join(''), Object.getOwnPropertySymbols(o).length, objs.map(id).join(''), fns.map(function(f){ return f(); }).join(''), [NaN].includes(NaN), [NaN].indexOf(NaN), Object.is(-0, +0), typeof id);
"# },
    Kernel { name: "d-number-formatting", kind: 'd', src: r#"
var xs=[]; var v=0.1*$B; for (var i=0;i<25;i++){ v=v*1.7+0.3/(i+1); xs.push(v, 1/v, Math.sin(v), Math.sqrt(v), Math.pow(v, 0.37), Math.atan2(v, i+1), Math.exp(-v/50), Math.log(v+1), Math.cbrt(v), Math.tanh(v/100)); }
print('d-numbers', xs.map(function(x){ return x.toString(); }).join(' '));
print('d-numbers2', xs.slice(0,20).map(function(x){ return x.toPrecision(17)+'/'+x.toString(2).length+'/'+x.toExponential(3); }).join(' '));
"# },
];

/// Replaces `$A/$B/$C` and wraps the kernel in its own function scope.
pub fn instantiate(k: &Kernel, rng: &mut Rng) -> String {
    let a = rng.below(7).to_string();
    let b = rng.range(1, 9).to_string();
    let body = k.src.replace("$A", &a).replace("$B", &b).replace("$C", &rng.below(100).to_string());
    format!("(function(){{{body}}})();\n")
}

pub fn by_kind(kinds: &str) -> Vec<&'static Kernel> {
    KERNELS.iter().filter(|k| kinds.contains(k.kind)).collect()
}

/// A program made of `n` kernels of the given kinds, in seeded order: one source text per kernel
/// (join them for a single evaluation, or evaluate them one by one in the same context).
pub fn compose(rng: &mut Rng, kinds: &str, n: usize) -> (Vec<String>, Vec<&'static str>) {
    let pool = by_kind(kinds);
    let mut parts = vec![];
    let mut names = vec![];
    for _ in 0..n {
        let k = *rng.pick(&pool);
        names.push(k.name);
        parts.push(instantiate(k, rng));
    }
    (parts, names)
}

pub fn harvest() -> &'static Vec<(String, Vec<String>)> {
    use std::sync::OnceLock;
    static H: OnceLock<Vec<(String, Vec<String>)>> = OnceLock::new();
    H.get_or_init(|| {
        let v: serde_json::Value =
            serde_json::from_str(include_str!("../../../corpus/harvest.json")).expect("harvest.json parses");
        v["groups"]
            .as_array()
            .expect("groups")
            .iter()
            .map(|g| {
                (
                    g["name"].as_str().unwrap_or("").to_string(),
                    g["snippets"].as_array().expect("snippets").iter().map(|s| s.as_str().unwrap_or("").to_string()).collect(),
                )
            })
            .collect()
    })
}
